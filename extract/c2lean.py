#!/usr/bin/env python3
"""C -> Lean translator for acquire-video-runtime/src/runtime/channel.c (the translator tie of C01 / C02 / C03 / C05).

Runs clang-14 on the *current* source and turns every function of the file it can express into a Lean 4 definition
(lean/AcqVerif/Generated/ChannelC.lean).  The theorems of lean/AcqVerif/Channel/Translated.lean then state that the
hand-written model (Channel/Model.lean), about which all property theorems are proved, computes exactly what the
translated functions compute — so the model is tied to what the code says *now* by a kernel-checked proof and not
only by running both.  A change to channel.c changes the generated definitions; if the behaviour changed, the
equivalence theorems stop checking.

What is translated, and how (the trusted part of the tie):
  * integers: unsigned C integers become `Nat` and `+`, `-`, `*` the (truncated) operations of `Nat`: wrap-around of
    size_t / uint32_t arithmetic is NOT modelled (it needs 2^64 bytes or laps; same assumption as the model).
    Conversions that *narrow* (size_t -> uint32_t, size_t -> int, ...) ARE modelled (`% 2^w`, `toInt32`);
    `int` values are `Int`.
  * a function `T f(struct channel* self, size_t n, size_t* out)` becomes a pure function returning the tuple
    (return value, then every non-const pointer parameter in order).  Assignment is `let`-shadowing.
  * control flow: `if`/`else`, `return`, `goto` (the code from the label to the end of the function is inlined),
    `for (i = a; i < b; ++i)` over a body without jumps (a fold over `List.range'`),
    `while (c) condition_variable_wait(..)` (if c holds the function returns at once with the ghost field
    `blocked := 1` — the "would block" outcome of the model).
  * the statements after an `if` are duplicated into both branches (continuation style), so every path of the C is one
    path of the Lean term.
  * `lock_acquire` / `lock_release` are skipped (the lock discipline is the subject of extract/syncskel.py);
    `condition_variable_notify_all` increments the ghost field `notified`.
  * `uint8_t* data`: a natural number (the address); `data + k` is address arithmetic, a null pointer is 0.
  * local pointers into the `holds` arrays (`size_t* const pos = self->holds.pos + reader->id - 1`) become an index
    (evaluated where the pointer is declared) and `*pos` reads / writes that element.
  * arrays are lists; reads are `getD _ 0`, writes `List.set`.
Anything else raises Unsupported: a function the translator cannot express is listed as untranslated (channel_new and
channel_release today); if a function that the equivalence theorems need is among them, the Lean build fails.
"""
import json, os, subprocess, sys

SRC = "acquire-video-runtime/src/runtime/channel.c"
LEAN_KEYWORDS = {"end", "at", "from", "in", "do", "then", "else", "fun", "let", "have", "show", "with", "match", "open", "by", "if", "then"}
SKIP_CALLS = {"lock_acquire", "lock_release"}
WIDTH = {"unsigned long": (64, False), "unsigned int": (32, False), "unsigned char": (8, False), "int": (32, True), "long": (64, True),
         "unsigned short": (16, False), "unsigned long long": (64, False), "_Bool": (1, False),
         "size_t": (64, False), "uint64_t": (64, False), "uint32_t": (32, False), "uint8_t": (8, False), "uint16_t": (16, False), "unsigned": (32, False)}


class Unsupported(Exception):
    pass


def clang_ast(repo):
    src = os.path.join(repo, SRC)
    cmd = ["clang-14", "-std=gnu11", "-fsyntax-only", "-Xclang", "-ast-dump=json",
           "-I" + os.path.join(repo, "acquire-video-runtime/src"),
           "-I" + os.path.join(repo, "acquire-core-libs/src/acquire-core-platform/linux"), src]
    p = subprocess.run(cmd, capture_output=True, text=True, timeout=120)
    if p.returncode != 0:
        raise Unsupported("clang failed: " + p.stderr[-500:])
    return json.loads(p.stdout)


def lname(c):
    return c + "_" if c in LEAN_KEYWORDS else c


def qt(n):
    t = n.get("type", {})
    return t.get("desugaredQualType") or t.get("qualType") or ""


def base_type(s):
    s = s.replace("const ", "").replace("volatile ", "").strip()
    while s.endswith("const") or s.endswith("restrict"):
        s = s[:-5].strip() if s.endswith("const") else s[:-8].strip()
    return s


def width_of(s):
    s = base_type(s)
    if s.startswith("enum "):
        return (32, False)
    if s in WIDTH:
        return WIDTH[s]
    return None


def strip_paren(n):
    while n.get("kind") == "ParenExpr":
        n = n["inner"][0]
    return n


def strip_all(n):
    while n.get("kind") in ("ParenExpr", "ImplicitCastExpr", "CStyleCastExpr"):
        n = n["inner"][0]
    return n


class Translator:
    def __init__(self, ast):
        self.ast = ast
        self.enums = {}
        self.structs = {}      # C struct name -> [(lean field, kind)]  kind: 'nat' | 'list'
        self.funcs = {}        # name -> FunctionDecl (with body, from the main file)
        self.sigs = {}         # name -> dict(params=[(cname, kind, struct)], ret=kind, outs=[...])
        self.done = {}         # name -> lean text
        self.failed = {}       # name -> reason
        self.order = []
        self.collect()

    # ------------------------------------------------------------------ declarations
    def collect(self):
        def walk(n):
            if not isinstance(n, dict):
                return
            k = n.get("kind")
            if k == "EnumDecl":
                v = -1
                for c in n.get("inner", []):
                    if c.get("kind") == "EnumConstantDecl":
                        ini = [x for x in c.get("inner", []) if isinstance(x, dict) and x.get("kind")]
                        if ini:
                            lit = strip_all(ini[0])
                            if lit.get("kind") == "ConstantExpr":
                                lit = strip_all(lit["inner"][0])
                            if lit.get("kind") != "IntegerLiteral":
                                v = None      # not a plain literal: this enum's constants stay unknown (using one raises Unsupported)
                                break
                            v = int(lit["value"])
                        elif v is not None:
                            v += 1
                        if v is None:
                            break
                        self.enums[c["name"]] = v
            if k == "RecordDecl" and n.get("name") in ("channel", "channel_reader") and n.get("completeDefinition"):
                self.structs[n["name"]] = self.record_fields(n, "")
            for c in n.get("inner", []):
                if c.get("kind") in ("EnumDecl", "RecordDecl", "LinkageSpecDecl"):
                    walk(c)
        walk(self.ast)
        for n in self.ast["inner"]:
            if n.get("kind") == "FunctionDecl" and any(c.get("kind") == "CompoundStmt" for c in n.get("inner", [])):
                f = n.get("loc", {})
                inc = f.get("includedFrom") or f.get("expansionLoc", {}).get("includedFrom")
                if inc:   # defined in a header
                    continue
                self.funcs[n["name"]] = n
                self.order.append(n["name"])
        if "channel" not in self.structs or "channel_reader" not in self.structs:
            raise Unsupported("struct channel / struct channel_reader not found")

    def record_fields(self, rec, prefix):
        out = []
        inner = rec.get("inner", [])
        anon = {}
        for c in inner:
            if c.get("kind") == "RecordDecl":
                anon[c.get("id")] = c
        last_anon = None
        for c in inner:
            if c.get("kind") == "RecordDecl":
                last_anon = c
                continue
            if c.get("kind") != "FieldDecl":
                continue
            t = qt(c)
            name = c["name"]
            if "struct lock" in t or "struct condition_variable" in t:
                continue
            if t.endswith("]"):
                el = t[:t.index("[")].strip()
                if not width_of(el):
                    raise Unsupported("array field %s of %s" % (name, t))
                out.append((prefix + name, "list"))
            elif "*" in t:
                out.append((prefix + name, "nat"))       # an address
            elif width_of(t):
                out.append((prefix + name, "nat"))
            elif t.startswith("struct ") and last_anon is not None:
                out += self.record_fields(last_anon, prefix + name + "_")
            else:
                raise Unsupported("field %s : %s" % (name, t))
        return out

    # ------------------------------------------------------------------ signatures
    def signature(self, name):
        if name in self.sigs:
            return self.sigs[name]
        f = self.funcs[name]
        params = []
        for p in f.get("inner", []):
            if p.get("kind") != "ParmVarDecl":
                continue
            t = qt(p)
            bt = base_type(t)
            const_pointee = t.strip().startswith("const ")
            if bt.endswith("*"):
                pointee = bt[:-1].strip()
                if pointee in ("struct channel", "struct channel_reader"):
                    params.append({"c": p["name"], "kind": "struct", "struct": pointee.split()[1], "out": not const_pointee})
                elif width_of(pointee):
                    # pointer to scalar: an array when const (read only), an out-parameter otherwise
                    params.append({"c": p["name"], "kind": "array" if const_pointee else "outptr", "out": not const_pointee})
                else:
                    raise Unsupported("parameter %s : %s" % (p["name"], t))
            elif width_of(bt):
                w, signed = width_of(bt)
                params.append({"c": p["name"], "kind": "int" if signed else "nat", "out": False})
            else:
                raise Unsupported("parameter %s : %s" % (p["name"], t))
        rt = f["type"]["qualType"].split("(")[0].strip()
        rt_d = rt
        # desugar the return type through the body's ReturnStmt types is not needed: typedef names are enough
        ret = None
        if rt == "void":
            ret = None
        elif rt in ("int",):
            ret = "int"
        elif rt in ("uint32_t", "uint8_t", "size_t", "uint64_t", "unsigned", "unsigned int", "unsigned long", "unsigned char"):
            ret = "nat"
        elif rt == "struct slice":
            ret = "slice"
        elif rt.endswith("*"):
            ret = "nat"
        else:
            raise Unsupported("return type %s" % rt)
        self.sigs[name] = {"params": params, "ret": ret, "rt": rt}
        return self.sigs[name]

    def ret_width(self, name):
        rt = self.sigs[name]["rt"]
        m = {"uint32_t": (32, False), "unsigned": (32, False), "unsigned int": (32, False), "uint8_t": (8, False), "unsigned char": (8, False),
             "size_t": (64, False), "uint64_t": (64, False), "unsigned long": (64, False), "int": (32, True)}
        return m.get(rt)

    # ------------------------------------------------------------------ one function
    def translate(self, name):
        if name in self.done or name in self.failed:
            return
        try:
            sig = self.signature(name)
            ft = FuncTr(self, name, sig)
            self.done[name] = ft.run()
        except Unsupported as ex:
            self.failed[name] = str(ex)

    def lean_type(self, p):
        return {"struct": None, "array": "List Nat", "outptr": "Nat", "nat": "Nat", "int": "Int"}[p["kind"]]

    def emit(self):
        for n in self.order:
            self.translate(n)
        out = []
        out.append("/-! GENERATED on every run of the channel checks by extract/c2lean.py from the current\n"
                   "`acquire-video-runtime/src/runtime/channel.c` (clang-14 AST).  Do not edit.  Conventions: see extract/c2lean.py. -/")
        out.append("namespace AcqVerif.Generated.ChannelC\n")
        out.append("/-- `(int)v` for an unsigned `v`: the low 32 bits, two's complement -/\n"
                   "def toInt32 (v : Nat) : Int := if v % 4294967296 < 2147483648 then (v % 4294967296 : Nat) else ((v % 4294967296 : Nat) : Int) - 4294967296\n")
        for cname, lean in (("channel", "CChannel"), ("channel_reader", "CReader")):
            out.append("/-- `struct %s`%s -/" % (cname, " (without lock and condition variable; `notified`, `blocked` are ghosts: number of "
                                                 "`condition_variable_notify_all` calls, 1 = reached `condition_variable_wait`)" if cname == "channel" else ""))
            out.append("structure %s where" % lean)
            for f, k in self.structs[cname]:
                out.append("  %s : %s := %s" % (lname(f), "List Nat" if k == "list" else "Nat", "[]" if k == "list" else "0"))
            if cname == "channel":
                out.append("  notified : Nat := 0")
                out.append("  blocked : Nat := 0")
            out.append("deriving Repr, DecidableEq\n")
        for k, v in sorted(self.enums.items(), key=lambda kv: kv[0]):
            if k.startswith("Channel"):
                out.append("def %s : Nat := %d" % (k, v))
        out.append("")
        for n in self.order:
            if n in self.done:
                out.append(self.done[n])
                out.append("")
        out.append("/-- functions of channel.c the translator does not express (not used by the equivalence theorems) -/")
        out.append("def untranslated : List String := [%s]" % ", ".join('"%s"' % n for n in self.order if n in self.failed))
        for n in self.order:
            if n in self.failed:
                out.append("-- %s: %s" % (n, self.failed[n].replace("\n", " ")[:200]))
        out.append("\nend AcqVerif.Generated.ChannelC")
        return "\n".join(out) + "\n"


class FuncTr:
    def __init__(self, tr, name, sig):
        self.tr = tr
        self.name = name
        self.sig = sig
        self.f = tr.funcs[name]
        self.body = [c for c in self.f["inner"] if c.get("kind") == "CompoundStmt"][0]
        self.env = {}          # C name -> dict(kind=..., ...)
        self.tmp = 0
        self.labels = {}       # label name -> list of statements from the label to the end of the function
        self.goto_depth = 0
        for p in sig["params"]:
            self.env[p["c"]] = dict(p)
        self.selfvar = next((p["c"] for p in sig["params"] if p["kind"] == "struct" and p["struct"] == "channel"), None)
        self.top = self.flatten(self.body.get("inner", []))
        for i, s in enumerate(self.top):
            if s.get("kind") == "LabelStmt":
                self.labels[s["name"]] = i

    # labels at the top level of the function body: `L: stmt` becomes [Label L, stmt]
    def flatten(self, stmts):
        out = []
        for s in stmts:
            if s.get("kind") == "LabelStmt":
                out.append({"kind": "LabelStmt", "name": s["name"]})
                out += self.flatten(s.get("inner", []))
            else:
                out.append(s)
        return out

    # ---------------------------------------------------------------- results
    def result_tuple(self, retval):
        parts = []
        if self.sig["ret"] is not None:
            parts.append(retval if retval is not None else "0")
        for p in self.sig["params"]:
            if p["out"]:
                parts.append(lname(p["c"]))
        if not parts:
            return "()"
        return "(" + ", ".join(parts) + ")" if len(parts) > 1 else parts[0]

    def result_type(self, sig=None):
        sig = sig or self.sig
        parts = []
        if sig["ret"] is not None:
            parts.append({"nat": "Nat", "int": "Int", "slice": "(Nat × Nat)"}[sig["ret"]])
        for p in sig["params"]:
            if p["out"]:
                parts.append({"struct": "CChannel" if p.get("struct") == "channel" else "CReader", "outptr": "Nat"}[p["kind"]])
        return " × ".join(parts) if parts else "Unit"

    def run(self):
        args = []
        for p in self.sig["params"]:
            ty = {"struct": "CChannel" if p.get("struct") == "channel" else "CReader", "array": "List Nat", "outptr": "Nat", "nat": "Nat", "int": "Int"}[p["kind"]]
            args.append("(%s : %s)" % (lname(p["c"]), ty))
        code = self.stmts(self.top, self.result_tuple(None), 1)
        doc = "/-- `%s` (%s:%s) -/" % (self.name, SRC.split("/")[-1], self.f.get("loc", {}).get("line", self.f.get("loc", {}).get("expansionLoc", {}).get("line", "?")))
        return "%s\ndef %s %s : %s :=\n%s" % (doc, self.name, " ".join(args), self.result_type(), code)

    # ---------------------------------------------------------------- statements (continuation style)
    def ind(self, d):
        return "  " * d

    def stmts(self, ss, k, d):
        """Lean term for: execute ss, then yield k (a Lean term over the current names)"""
        if not ss:
            return self.ind(d) + k
        s, rest = ss[0], ss[1:]
        kind = s.get("kind")
        if kind in (None, "NullStmt", "LabelStmt"):
            return self.stmts(rest, k, d)
        if kind == "CompoundStmt":
            return self.stmts(self.flatten(s.get("inner", [])) + rest, k, d)
        if kind == "DeclStmt":
            return self.decl(s, rest, k, d)
        if kind == "ReturnStmt":
            inner = [c for c in s.get("inner", []) if c.get("kind")]
            if not inner:
                return self.ind(d) + self.result_tuple(None)
            pre, v = self.ret_value(inner[0])
            return self.lets(pre, d) + self.ind(d) + self.result_tuple(v)
        if kind == "GotoStmt":
            lab = self.label_name(s)
            self.goto_depth += 1
            if self.goto_depth > 12:
                raise Unsupported("goto cycle")
            code = self.stmts(self.top[self.labels[lab]:], self.result_tuple(None), d)
            self.goto_depth -= 1
            return code
        if kind == "IfStmt":
            inner = s["inner"]
            cond, then = inner[0], inner[1]
            els = inner[2] if len(inner) > 2 else None
            t_code = self.stmts([then] + rest, k, d + 1)
            e_code = self.stmts(([els] if els else []) + rest, k, d + 1)
            return self.cond(cond, t_code, e_code, d)
        if kind == "WhileStmt":
            cond, body = s["inner"][0], s["inner"][1]
            bs = self.flatten(body.get("inner", [])) if body.get("kind") == "CompoundStmt" else [body]
            bs = [b for b in bs if b.get("kind") not in (None, "NullStmt")]
            if len(bs) == 1 and bs[0].get("kind") == "CallExpr" and self.callee(bs[0]) == "condition_variable_wait" and self.selfvar:
                sv = lname(self.selfvar)
                blocked = self.ind(d + 1) + "let %s := { %s with blocked := 1 }\n" % (sv, sv) + self.ind(d + 1) + self.result_tuple(None)
                return self.cond(cond, blocked, self.stmts(rest, k, d + 1), d)
            raise Unsupported("while loop other than `while (c) condition_variable_wait(..)`")
        if kind == "ForStmt":
            return self.forloop(s, rest, k, d)
        # expression statements
        return self.expr_stmt(s, rest, k, d)

    def label_name(self, s):
        tid = s.get("targetLabelDeclId")
        def find(n):
            if isinstance(n, dict):
                if n.get("kind") == "LabelStmt" and n.get("declId") == tid:
                    return n["name"]
                for c in n.get("inner", []):
                    r = find(c)
                    if r:
                        return r
            return None
        r = find(self.body)
        if r is None or r not in self.labels:
            raise Unsupported("goto to a label that is not at the top level of the function")
        return r

    def lets(self, pre, d):
        return "".join(self.ind(d) + l + "\n" for l in pre)

    def decl(self, s, rest, k, d):
        code = ""
        for v in s.get("inner", []):
            if v.get("kind") == "RecordDecl":
                continue
            if v.get("kind") != "VarDecl":
                raise Unsupported("declaration " + str(v.get("kind")))
            name, t = v["name"], qt(v)
            bt = base_type(t)
            init = [c for c in v.get("inner", []) if c.get("kind")]
            init = init[0] if init else None
            if bt.startswith("struct (unnamed") or (init is not None and init.get("kind") == "InitListExpr" and "struct" in bt and "*" not in bt):
                # local struct of scalars: one Lean variable per field
                fields = self.local_struct_fields(s, v)
                self.env[name] = {"kind": "localstruct", "fields": fields}
                vals = init.get("inner", []) if init else []
                for i, fn in enumerate(fields):
                    if i < len(vals):
                        pre, val = self.val(vals[i], "nat")
                        code += self.lets(pre, d)
                    else:
                        val = "0"
                    code += self.ind(d) + "let %s_%s := %s\n" % (lname(name), fn, val)
                continue
            if bt.endswith("*"):
                pointee = bt[:-1].strip()
                if init is None:
                    raise Unsupported("uninitialised pointer " + name)
                arr = self.array_base(init)
                if arr is not None:
                    (sv, field), idx_parts = arr
                    pre = []
                    terms = []
                    for sign, e in idx_parts:
                        p2, val = self.val(e, "nat")
                        pre += p2
                        terms.append((sign, val))
                    idx = "0"
                    for sign, val in terms:
                        idx = "(%s %s %s)" % (idx, sign, val)
                    code += self.lets(pre, d)
                    code += self.ind(d) + "let %s_ix := %s\n" % (lname(name), idx)
                    self.env[name] = {"kind": "alias", "var": sv, "field": field, "ix": "%s_ix" % lname(name)}
                    continue
                # an address (uint8_t* out = self->data + *pos; void* out = 0)
                pre, val = self.val(init, "nat")
                code += self.lets(pre, d) + self.ind(d) + "let %s := %s\n" % (lname(name), val)
                self.env[name] = {"kind": "nat"}
                continue
            w = width_of(bt)
            if not w:
                raise Unsupported("local %s : %s" % (name, t))
            kind = "int" if w[1] else "nat"
            self.env[name] = {"kind": kind}
            if init is None:
                code += self.ind(d) + "let %s := %s -- (uninitialised in the C)\n" % (lname(name), "(0 : Int)" if kind == "int" else "0")
            else:
                pre, val = self.val(init, kind)
                code += self.lets(pre, d) + self.ind(d) + "let %s := %s\n" % (lname(name), val)
        return code + self.stmts(rest, k, d)

    def local_struct_fields(self, declstmt, v):
        for c in declstmt.get("inner", []):
            if c.get("kind") == "RecordDecl":
                return [f["name"] for f in c.get("inner", []) if f.get("kind") == "FieldDecl"]
        raise Unsupported("local struct without inline definition")

    def array_base(self, e):
        """e = <array field of a struct parameter> (+|- expr)* : ((structvar, leanfield), [(sign, expr)..]) else None"""
        e = strip_paren(e)
        if e.get("kind") in ("ImplicitCastExpr", "CStyleCastExpr"):
            if e.get("castKind") == "ArrayToPointerDecay":
                lv = self.lvalue(e["inner"][0])
                if lv[0] == "field" and lv[3] == "list":
                    return ((lv[1], lv[2]), [])
                return None
            return self.array_base(e["inner"][0])
        if e.get("kind") == "BinaryOperator" and e.get("opcode") in ("+", "-"):
            left = self.array_base(e["inner"][0])
            if left is None:
                return None
            return (left[0], left[1] + [(e["opcode"], e["inner"][1])])
        return None

    def forloop(self, s, rest, k, d):
        init, _, cond, inc, body = s["inner"]
        if init.get("kind") != "DeclStmt" or len([c for c in init["inner"] if c.get("kind") == "VarDecl"]) != 1:
            raise Unsupported("for-init")
        iv = [c for c in init["inner"] if c.get("kind") == "VarDecl"][0]
        iname = iv["name"]
        ini = [c for c in iv.get("inner", []) if c.get("kind")]
        pre_a, a = self.val(ini[0], "nat")
        c = strip_paren(cond)
        if c.get("kind") != "BinaryOperator" or c.get("opcode") != "<" or strip_all(c["inner"][0]).get("referencedDecl", {}).get("name") != iname:
            raise Unsupported("for-condition other than i < bound")
        incn = strip_paren(inc)
        if incn.get("kind") != "UnaryOperator" or incn.get("opcode") != "++" or strip_all(incn["inner"][0]).get("referencedDecl", {}).get("name") != iname:
            raise Unsupported("for-increment other than ++i")
        self.env[iname] = {"kind": "nat"}
        bs = self.flatten(body.get("inner", [])) if body.get("kind") == "CompoundStmt" else [body]
        if self.has_jump(bs):
            raise Unsupported("jump inside a for loop")
        muts = self.assigned(bs)
        if iname in muts:
            raise Unsupported("loop variable assigned in the body")
        bound_paths = self.paths_in(c["inner"][1])
        written = self.written_paths(bs)
        for (r, f) in bound_paths:
            if any(wr == r and (wf is None or f is None or wf == f) for (wr, wf) in written):
                raise Unsupported("loop bound changes in the loop")
        pre_b, b = self.val(c["inner"][1], "nat")
        names = []
        for m in muts:
            e = self.env.get(m)
            if e is None:
                raise Unsupported("assignment to unknown " + m)
            if e["kind"] == "localstruct":
                names += ["%s_%s" % (lname(m), f) for f in e["fields"]]
            elif e["kind"] == "alias":
                names.append(lname(e["var"]))
            else:
                names.append(lname(m))
        names = list(dict.fromkeys(names))
        if not names:
            return self.stmts(rest, k, d)
        tup = "(" + ", ".join(names) + ")" if len(names) > 1 else names[0]
        body_code = self.stmts(bs, tup, d + 2)
        code = self.lets(pre_a + pre_b, d)
        code += self.ind(d) + "let %s := (List.range' %s (%s - %s)).foldl (fun %s %s =>\n%s) %s\n" % (tup, a, b, a, tup, lname(iname), body_code, tup)
        return code + self.stmts(rest, k, d)

    def has_jump(self, ss):
        def walk(n):
            if isinstance(n, dict):
                if n.get("kind") in ("ReturnStmt", "GotoStmt", "BreakStmt", "ContinueStmt", "WhileStmt", "ForStmt", "DoStmt"):
                    return True
                return any(walk(c) for c in n.get("inner", []))
            return False
        return any(walk(s) for s in ss)

    def path_of(self, n):
        """(root variable, field path or None) of an lvalue-ish expression"""
        n = strip_all(n)
        if n.get("kind") == "DeclRefExpr":
            return (n["referencedDecl"]["name"], None)
        if n.get("kind") == "MemberExpr":
            path = [n["name"]]
            b = strip_all(n["inner"][0])
            while b.get("kind") == "MemberExpr":
                path.insert(0, b["name"])
                b = strip_all(b["inner"][0])
            if b.get("kind") == "DeclRefExpr":
                return (b["referencedDecl"]["name"], "_".join(path))
            return (None, None)
        if n.get("kind") == "ArraySubscriptExpr":
            return self.path_of(n["inner"][0])
        if n.get("kind") == "UnaryOperator" and n.get("opcode") == "*":
            b = strip_all(n["inner"][0])
            if b.get("kind") == "DeclRefExpr":
                en = self.env.get(b["referencedDecl"]["name"], {})
                if en.get("kind") == "alias":
                    return (en["var"], en["field"])
                return (b["referencedDecl"]["name"], None)
        return (None, None)

    def paths_in(self, e):
        out = set()
        def walk(n):
            if isinstance(n, dict):
                if n.get("kind") in ("MemberExpr", "DeclRefExpr"):
                    out.add(self.path_of(n))
                    if n.get("kind") == "MemberExpr":
                        return
                for c in n.get("inner", []):
                    walk(c)
        walk(e)
        return out

    def written_paths(self, ss):
        out = set()
        def walk(n):
            if isinstance(n, dict):
                if (n.get("kind") in ("BinaryOperator", "CompoundAssignOperator") and n.get("opcode", "").endswith("=") and n.get("opcode") not in ("==", "!=", "<=", ">=")) or \
                   (n.get("kind") == "UnaryOperator" and n.get("opcode") in ("++", "--")):
                    out.add(self.path_of(n["inner"][0]))
                for c in n.get("inner", []):
                    walk(c)
        for s in ss:
            walk(s)
        return out

    def vars_in(self, e):
        out = set()
        def walk(n):
            if isinstance(n, dict):
                if n.get("kind") == "DeclRefExpr":
                    out.add(n["referencedDecl"]["name"])
                for c in n.get("inner", []):
                    walk(c)
        walk(e)
        return out

    def assigned(self, ss):
        out = []
        def root(n):
            n = strip_all(n)
            if n.get("kind") == "DeclRefExpr":
                return n["referencedDecl"]["name"]
            if n.get("kind") in ("MemberExpr", "ArraySubscriptExpr", "UnaryOperator"):
                return root(n["inner"][0])
            return None
        def walk(n):
            if isinstance(n, dict):
                if (n.get("kind") in ("BinaryOperator", "CompoundAssignOperator") and n.get("opcode", "").endswith("=") and n.get("opcode") not in ("==", "!=", "<=", ">=")) or \
                   (n.get("kind") == "UnaryOperator" and n.get("opcode") in ("++", "--")):
                    r = root(n["inner"][0])
                    if r and r not in out:
                        out.append(r)
                if n.get("kind") == "CallExpr":
                    raise Unsupported("call inside a for loop that may write")  # conservatively refuse writes through calls
                for c in n.get("inner", []):
                    walk(c)
        for s in ss:
            try:
                walk(s)
            except Unsupported:
                # calls are fine when they are pure (translated functions without out-parameters)
                def pure(n):
                    if isinstance(n, dict):
                        if n.get("kind") == "CallExpr":
                            cal = self.callee(n)
                            if cal not in self.tr.funcs or any(p["out"] for p in self.tr.signature(cal)["params"]):
                                return False
                        return all(pure(c) for c in n.get("inner", []))
                    return True
                if not pure(s):
                    raise
                # re-walk ignoring calls
                def walk2(n):
                    if isinstance(n, dict):
                        if (n.get("kind") in ("BinaryOperator", "CompoundAssignOperator") and n.get("opcode", "").endswith("=") and n.get("opcode") not in ("==", "!=", "<=", ">=")) or \
                           (n.get("kind") == "UnaryOperator" and n.get("opcode") in ("++", "--")):
                            r = root(n["inner"][0])
                            if r and r not in out:
                                out.append(r)
                        for c in n.get("inner", []):
                            walk2(c)
                walk2(s)
        return out

    # ---------------------------------------------------------------- lvalues
    def lvalue(self, e):
        """('var', leanname, kind) | ('field', structvar, leanfield, 'nat'|'list') | ('elem', structvar|None, leanlist, index_expr_node|leanstr)
           | ('lsfield', leanname)"""
        e = strip_paren(e)
        k = e.get("kind")
        if k == "DeclRefExpr":
            name = e["referencedDecl"]["name"]
            en = self.env.get(name)
            if en is None:
                raise Unsupported("unknown variable " + name)
            return ("var", name, en["kind"])
        if k == "MemberExpr":
            path = [e["name"]]
            base = strip_paren(e["inner"][0])
            while base.get("kind") == "MemberExpr":
                path.insert(0, base["name"])
                base = strip_paren(base["inner"][0])
            if base.get("kind") == "ImplicitCastExpr":
                base = strip_all(base)
            if base.get("kind") != "DeclRefExpr":
                raise Unsupported("member of a non-variable")
            bname = base["referencedDecl"]["name"]
            en = self.env.get(bname)
            if en is None:
                raise Unsupported("unknown variable " + bname)
            if en["kind"] == "localstruct":
                return ("lsfield", "%s_%s" % (lname(bname), path[0]))
            if en["kind"] != "struct":
                raise Unsupported("member of " + bname)
            field = "_".join(path)
            kinds = dict(self.tr.structs[en["struct"]])
            if field not in kinds:
                raise Unsupported("field %s of struct %s" % (field, en["struct"]))
            return ("field", bname, field, kinds[field])
        if k == "ArraySubscriptExpr":
            arr, idx = e["inner"][0], e["inner"][1]
            a = strip_all(arr)
            if a.get("kind") == "DeclRefExpr":
                name = a["referencedDecl"]["name"]
                en = self.env.get(name, {})
                if en.get("kind") == "array":
                    return ("elem", None, lname(name), idx)
                raise Unsupported("subscript of " + name)
            lv = self.lvalue(a)
            if lv[0] == "field" and lv[3] == "list":
                return ("elem", lv[1], lv[2], idx)
            raise Unsupported("subscript")
        if k == "UnaryOperator" and e.get("opcode") == "*":
            p = strip_all(e["inner"][0])
            if p.get("kind") == "DeclRefExpr":
                name = p["referencedDecl"]["name"]
                en = self.env.get(name, {})
                if en.get("kind") == "alias":
                    return ("elem", en["var"], en["field"], en["ix"])
                if en.get("kind") == "outptr":
                    return ("var", name, "nat")
            raise Unsupported("dereference")
        raise Unsupported("lvalue " + str(k))

    def read(self, lv, want):
        if lv[0] == "var":
            name, kind = lv[1], lv[2]
            if kind in ("nat", "outptr"):
                return self.coerce(lname(name), "nat", want)
            if kind == "int":
                return self.coerce(lname(name), "int", want)
            if kind == "array":
                return lname(name)
            raise Unsupported("read of " + name)
        if lv[0] == "lsfield":
            return self.coerce(lv[1], "nat", want)
        if lv[0] == "field":
            return self.coerce("%s.%s" % (lname(lv[1]), lname(lv[2])), "nat", want)
        if lv[0] == "elem":
            lst = "%s.%s" % (lname(lv[1]), lname(lv[2])) if lv[1] else lv[2]
            if isinstance(lv[3], str):
                idx, pre = lv[3], []
            else:
                pre, idx = self.val(lv[3], "nat")
                if pre:
                    raise Unsupported("side effect in an index")
            return self.coerce("(%s.getD %s 0)" % (lst, idx), "nat", want)
        raise Unsupported("read")

    def coerce(self, s, have, want):
        if have == want or want is None:
            return s
        if have == "nat" and want == "int":
            return "((%s : Nat) : Int)" % s
        raise Unsupported("int used as unsigned without a cast")

    def assign(self, lv, val):
        """Lean `let` line(s) for lv := val"""
        if lv[0] == "var":
            return ["let %s := %s" % (lname(lv[1]), val)]
        if lv[0] == "lsfield":
            return ["let %s := %s" % (lv[1], val)]
        if lv[0] == "field":
            sv = lname(lv[1])
            return ["let %s := { %s with %s := %s }" % (sv, sv, lname(lv[2]), val)]
        if lv[0] == "elem":
            if lv[1] is None:
                raise Unsupported("write to a const array")
            sv, f = lname(lv[1]), lname(lv[2])
            if isinstance(lv[3], str):
                idx, pre = lv[3], []
            else:
                pre, idx = self.val(lv[3], "nat")
            return pre + ["let %s := { %s with %s := %s.%s.set %s (%s) }" % (sv, sv, f, sv, f, idx, val)]
        raise Unsupported("assignment")

    # ---------------------------------------------------------------- expressions
    def callee(self, call):
        c = strip_all(call["inner"][0])
        return c.get("referencedDecl", {}).get("name")

    def is_bool_expr(self, e):
        e = strip_paren(e)
        return (e.get("kind") == "BinaryOperator" and e.get("opcode") in ("<", ">", "<=", ">=", "==", "!=", "&&", "||")) or \
               (e.get("kind") == "UnaryOperator" and e.get("opcode") == "!")

    def val(self, e, want):
        """(pre-lets, Lean term of type `want` ('nat' | 'int'))"""
        e = strip_paren(e)
        k = e.get("kind")
        if k == "IntegerLiteral":
            v = int(e["value"])
            return [], ("(%d : Int)" % v if want == "int" else str(v))
        if k in ("ImplicitCastExpr", "CStyleCastExpr"):
            ck = e.get("castKind")
            inner = e["inner"][0]
            if ck in ("LValueToRValue", "NoOp", "FunctionToPointerDecay", "BitCast"):
                return self.val(inner, want)
            if ck == "ArrayToPointerDecay":
                raise Unsupported("array used as a pointer value")
            if ck == "NullToPointer":
                return [], "0"
            if ck == "IntegralCast":
                return self.integral_cast(e, inner, want)
            if ck == "IntegralToBoolean":
                pre, v = self.val(inner, "nat")
                return pre, "(if %s ≠ 0 then 1 else 0)" % v
            raise Unsupported("cast " + str(ck))
        if k == "DeclRefExpr":
            rd = e["referencedDecl"]
            if rd.get("kind") == "EnumConstantDecl":
                v = self.tr.enums.get(rd["name"])
                if v is None:
                    raise Unsupported("enum constant " + rd["name"])
                return [], ("(%d : Int)" % v if want == "int" else (rd["name"] if rd["name"].startswith("Channel") else str(v)))
            return [], self.read(self.lvalue(e), want)
        if k in ("MemberExpr", "ArraySubscriptExpr"):
            return [], self.read(self.lvalue(e), want)
        if k == "UnaryOperator":
            op = e.get("opcode")
            if op == "*":
                return [], self.read(self.lvalue(e), want)
            if op == "-":
                pre, v = self.val(e["inner"][0], "int")
                if want != "int":
                    raise Unsupported("negation in an unsigned context")
                return pre, "(-%s)" % v
            if op == "!":
                return self.bool_as_value(e, want)
            if op == "++" and not e.get("isPostfix"):
                lv = self.lvalue(e["inner"][0])
                cur = self.read(lv, "nat")
                pre = self.assign(lv, "%s + 1" % cur)
                return pre, self.read(lv, want)
            if op == "&":
                raise Unsupported("address-of in a value")
            raise Unsupported("unary " + str(op))
        if k == "BinaryOperator":
            op = e.get("opcode")
            if op in ("<", ">", "<=", ">=", "==", "!=", "&&", "||"):
                return self.bool_as_value(e, want)
            if op == "/" and strip_paren(e["inner"][0]).get("kind") == "UnaryExprOrTypeTraitExpr" and strip_paren(e["inner"][1]).get("kind") == "UnaryExprOrTypeTraitExpr":
                a, b = self.sizeof(strip_paren(e["inner"][0])), self.sizeof(strip_paren(e["inner"][1]))
                if b == 0 or a % b:
                    raise Unsupported("sizeof quotient")
                return [], str(a // b)
            if op in ("+", "-", "*"):
                ty = "int" if (width_of(qt(e)) or (0, False))[1] else "nat"
                if "*" in qt(e) and qt(e).strip().endswith("*"):
                    ty = "nat"   # address arithmetic
                p1, a = self.val(e["inner"][0], ty)
                p2, b = self.val(e["inner"][1], ty)
                return p1 + p2, self.coerce("(%s %s %s)" % (a, op, b), ty, want)
            if op == "=":
                raise Unsupported("assignment used as a value")
            raise Unsupported("binary " + str(op))
        if k == "ConditionalOperator":
            c, a, b = e["inner"]
            pc, cs = self.prop(c)
            p1, av = self.val(a, want)
            p2, bv = self.val(b, want)
            if pc or p1 or p2:
                raise Unsupported("side effect in ?:")
            return [], "(if %s then %s else %s)" % (cs, av, bv)
        if k == "CallExpr":
            return self.call(e, want)
        if k == "UnaryExprOrTypeTraitExpr":
            return [], str(self.sizeof(e))
        raise Unsupported("expression " + str(k))

    def sizeof(self, e):
        if e.get("name") != "sizeof":
            raise Unsupported("type trait " + str(e.get("name")))
        arg = e.get("inner", [None])[0]
        t = qt(arg) if arg else (e.get("argType", {}).get("desugaredQualType") or e.get("argType", {}).get("qualType", ""))
        t = base_type(t)
        n = 1
        while t.endswith("]"):
            n *= int(t[t.rindex("[") + 1:-1])
            t = t[:t.rindex("[")].strip()
        w = width_of(t)
        if not w:
            raise Unsupported("sizeof " + t)
        return n * w[0] // 8

    def integral_cast(self, e, inner, want):
        to, frm = width_of(qt(e)), width_of(qt(inner))
        i = strip_paren(inner)
        if to is None or frm is None:
            raise Unsupported("integral cast %s -> %s" % (qt(inner), qt(e)))
        tw, ts = to
        fw, fs = frm
        if i.get("kind") == "IntegerLiteral":
            v = int(i["value"])
            if (not ts and 0 <= v < 2 ** tw) or (ts and -2 ** (tw - 1) <= v < 2 ** (tw - 1)):
                return [], ("(%d : Int)" % v if want == "int" else str(v))
        if i.get("kind") == "DeclRefExpr" and i.get("referencedDecl", {}).get("kind") == "EnumConstantDecl":
            return self.val(i, want)
        if self.is_bool_expr(i):     # comparison results are 0 / 1
            return self.bool_as_value(i, want)
        if not fs and not ts:
            pre, v = self.val(inner, "nat")
            if tw >= fw:
                return pre, self.coerce(v, "nat", want)
            return pre, self.coerce("(%s %% %d)" % (v, 2 ** tw), "nat", want)
        if not fs and ts and fw < tw:    # a narrower unsigned value promoted to int: unchanged
            pre, v = self.val(inner, "nat")
            return pre, self.coerce(v, "nat", want)
        if not fs and ts:
            pre, v = self.val(inner, "nat")
            if tw != 32:
                raise Unsupported("cast to a signed type other than int")
            if want != "int":
                raise Unsupported("signed value in an unsigned context")
            return pre, "(toInt32 %s)" % v
        raise Unsupported("cast from a signed type (%s -> %s)" % (qt(inner), qt(e)))

    def bool_as_value(self, e, want):
        pre, p = self.prop(e)
        return pre, ("(if %s then (1 : Int) else 0)" if want == "int" else "(if %s then 1 else 0)") % p

    def prop(self, e):
        """(pre-lets, Lean Prop/Bool term) for a C condition without short-circuit-sensitive side effects"""
        e = strip_paren(e)
        k = e.get("kind")
        if k in ("ImplicitCastExpr",) and e.get("castKind") in ("IntegralCast", "IntegralToBoolean", "LValueToRValue", "NoOp") and self.is_bool_expr(e["inner"][0]):
            return self.prop(e["inner"][0])
        if k == "BinaryOperator":
            op = e.get("opcode")
            if op in ("<", ">", "<=", ">=", "==", "!="):
                a, b = e["inner"]
                signed = (width_of(qt(a)) or (0, False))[1] or (width_of(qt(b)) or (0, False))[1]
                if "*" in qt(a):
                    signed = False
                ty = "int" if signed else "nat"
                p1, av = self.val(a, ty)
                p2, bv = self.val(b, ty)
                lop = {"<": "<", ">": ">", "<=": "≤", ">=": "≥", "==": "=", "!=": "≠"}[op]
                return p1 + p2, "(%s %s %s)" % (av, lop, bv)
            if op in ("&&", "||"):
                p1, a = self.prop(e["inner"][0])
                p2, b = self.prop(e["inner"][1])
                if p2:
                    raise Unsupported("side effect on the right of %s" % op)
                return p1, "(%s %s %s)" % (a, "∧" if op == "&&" else "∨", b)
        if k == "UnaryOperator" and e.get("opcode") == "!":
            pre, a = self.prop(e["inner"][0])
            return pre, "(¬ %s)" % a
        ty = "int" if (width_of(qt(e)) or (0, False))[1] else "nat"
        pre, v = self.val(e, ty)
        return pre, "(%s ≠ 0)" % v

    def cond(self, c, t_code, e_code, d):
        """if (c) T else E with C's evaluation order: `a && b` evaluates b (and its side effects: calls with out-parameters) only when a holds"""
        c = strip_paren(c)
        if c.get("kind") == "BinaryOperator" and c.get("opcode") == "&&":
            inner = self.cond(c["inner"][1], t_code, e_code, d + 1)
            return self.cond(c["inner"][0], inner, e_code, d)
        if c.get("kind") == "BinaryOperator" and c.get("opcode") == "||":
            inner = self.cond(c["inner"][1], t_code, e_code, d + 1)
            return self.cond(c["inner"][0], t_code, inner, d)
        if c.get("kind") == "UnaryOperator" and c.get("opcode") == "!":
            return self.cond(c["inner"][0], e_code, t_code, d)
        pre, p = self.prop(c)
        return self.lets(pre, d) + self.ind(d) + "if %s then\n%s\n%selse\n%s" % (p, t_code, self.ind(d), e_code)

    def call(self, e, want):
        name = self.callee(e)
        args = e["inner"][1:]
        if name not in self.tr.funcs:
            raise Unsupported("call of " + str(name))
        sig = self.tr.signature(name)
        self.tr.translate(name)
        if name in self.tr.failed:
            raise Unsupported("call of untranslated %s" % name)
        pre, largs, outs = [], [], []
        for p, a in zip(sig["params"], args):
            if p["kind"] == "struct":
                a0 = strip_all(a)
                if a0.get("kind") != "DeclRefExpr" or self.env.get(a0["referencedDecl"]["name"], {}).get("kind") != "struct":
                    raise Unsupported("struct argument")
                largs.append(lname(a0["referencedDecl"]["name"]))
                if p["out"]:
                    outs.append(lname(a0["referencedDecl"]["name"]))
            elif p["kind"] == "outptr":
                a0 = strip_all(a)
                if a0.get("kind") == "UnaryOperator" and a0.get("opcode") == "&":
                    lv = self.lvalue(a0["inner"][0])
                elif a0.get("kind") == "DeclRefExpr" and self.env.get(a0["referencedDecl"]["name"], {}).get("kind") == "outptr":
                    lv = ("var", a0["referencedDecl"]["name"], "nat")
                else:
                    raise Unsupported("out-argument")
                if lv[0] != "var":
                    raise Unsupported("out-argument that is not a variable")
                largs.append(lname(lv[1]))
                outs.append(lname(lv[1]))
            elif p["kind"] == "array":
                a0 = strip_paren(a)
                arr = self.array_base(a0)
                if arr is not None and not arr[1]:
                    largs.append("%s.%s" % (lname(arr[0][0]), lname(arr[0][1])))
                else:
                    a1 = strip_all(a0)
                    if a1.get("kind") == "DeclRefExpr" and self.env.get(a1["referencedDecl"]["name"], {}).get("kind") == "array":
                        largs.append(lname(a1["referencedDecl"]["name"]))
                    else:
                        raise Unsupported("array argument")
            else:
                p2, v = self.val(a, p["kind"])
                pre += p2
                largs.append(v)
        app = "%s %s" % (name, " ".join(largs))
        retk = sig["ret"]
        if not outs:
            if retk is None:
                return pre, "0"
            return pre, self.coerce("(%s)" % app, "int" if retk == "int" else "nat", want)
        self.tmp += 1
        r = "r%d_" % self.tmp
        parts = ([r] if retk is not None else []) + outs
        pre.append("let (%s) := %s" % (", ".join(parts), app) if len(parts) > 1 else "let %s := %s" % (parts[0], app))
        if retk is None:
            return pre, "0"
        return pre, self.coerce(r, "int" if retk == "int" else "nat", want)

    def ret_value(self, e):
        kind = self.sig["ret"]
        if kind == "slice":
            e0 = strip_all(e)
            if e0.get("kind") == "CompoundLiteralExpr":
                e0 = e0["inner"][0]
            if e0.get("kind") != "InitListExpr" or len(e0.get("inner", [])) != 2:
                raise Unsupported("struct slice return")
            p1, a = self.val(e0["inner"][0], "nat")
            p2, b = self.val(e0["inner"][1], "nat")
            return p1 + p2, "(%s, %s)" % (a, b)
        return self.val(e, kind)

    def expr_stmt(self, s, rest, k, d):
        e = strip_paren(s)
        kind = e.get("kind")
        if kind in ("ImplicitCastExpr", "CStyleCastExpr"):     # (void)x;
            return self.expr_stmt(e["inner"][0], rest, k, d)
        if kind == "CallExpr":
            name = self.callee(e)
            if name in SKIP_CALLS:
                return self.stmts(rest, k, d)
            if name == "condition_variable_notify_all":
                if not self.selfvar:
                    raise Unsupported("notify without a channel")
                sv = lname(self.selfvar)
                return self.ind(d) + "let %s := { %s with notified := %s.notified + 1 }\n" % (sv, sv, sv) + self.stmts(rest, k, d)
            pre, _ = self.call(e, None)
            return self.lets(pre, d) + self.stmts(rest, k, d)
        if kind == "BinaryOperator" and e.get("opcode") == "=":
            lhs, rhs = e["inner"]
            r0 = strip_paren(rhs)
            # chained assignment  a = b = v
            if r0.get("kind") == "BinaryOperator" and r0.get("opcode") == "=":
                code = self.expr_stmt(r0, [], "", d).rstrip("\n")
                lv = self.lvalue(lhs)
                inner_lv = self.lvalue(r0["inner"][0])
                want = "int" if lv[0] == "var" and lv[2] == "int" else "nat"
                lines = self.assign(lv, self.read(inner_lv, want))
                return code.rstrip() + "\n" + self.lets(lines, d) + self.stmts(rest, k, d) if code.strip() else self.lets(lines, d) + self.stmts(rest, k, d)
            lv = self.lvalue(lhs)
            want = "int" if lv[0] == "var" and lv[2] == "int" else "nat"
            if lv[0] == "var" and self.env[lv[1]]["kind"] == "alias":
                raise Unsupported("re-seating a pointer")
            pre, v = self.val(rhs, want)
            return self.lets(pre + self.assign(lv, v), d) + self.stmts(rest, k, d)
        if kind == "CompoundAssignOperator" and e.get("opcode") in ("+=", "-="):
            lv = self.lvalue(e["inner"][0])
            pre, v = self.val(e["inner"][1], "nat")
            cur = self.read(lv, "nat")
            return self.lets(pre + self.assign(lv, "%s %s %s" % (cur, e["opcode"][0], v)), d) + self.stmts(rest, k, d)
        if kind == "UnaryOperator" and e.get("opcode") in ("++", "--"):
            lv = self.lvalue(e["inner"][0])
            cur = self.read(lv, "nat")
            return self.lets(self.assign(lv, "%s %s 1" % (cur, "+" if e["opcode"] == "++" else "-")), d) + self.stmts(rest, k, d)
        raise Unsupported("statement " + str(kind))


def generate(repo):
    tr = Translator(clang_ast(repo))
    return tr.emit(), tr


if __name__ == "__main__":
    text, tr = generate(sys.argv[1] if len(sys.argv) > 1 else "/repo")
    sys.stdout.write(text)
    sys.stderr.write("translated: %s\nuntranslated: %s\n" % (", ".join(tr.done), tr.failed))
