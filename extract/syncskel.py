#!/usr/bin/env python3
"""Lock-discipline extractor for acquire-video-runtime/src/runtime/channel.c (translator part of C03).

Runs clang-14 on the current source, walks the typed AST of every function and computes, by a small
abstract interpretation over the statement structure (if/while/for/do, goto/labels, return), the
*lock depth* (number of lock_acquire(&self->lock) minus lock_release) at every access to a field of
`struct channel` -- directly (`self->head`), through a local pointer derived from a field
(`size_t* pos = self->holds.pos + ...; *pos = ...`) or inside a static helper called with `self`
(analysed at the depth of each call site).  It also records where condition_variable_wait and
condition_variable_notify_all are called.

Output: lean/AcqVerif/Generated/SyncSkeleton.lean (a table of facts; the theorems about it are in
Props/C03.lean and are re-checked by the kernel whenever the table changes).
Anything the walker does not understand raises Unsupported: the extractor fails closed.
"""
import json, os, subprocess, sys

FIELDS = ["data", "capacity", "head", "high", "cycle", "mapped", "is_accepting_writes", "holds", "lock", "notify_space_available"]
SYNC_FIELDS = ("lock", "notify_space_available")


class Unsupported(Exception):
    pass


def clang_ast(repo):
    src = os.path.join(repo, "acquire-video-runtime/src/runtime/channel.c")
    cmd = ["clang-14", "-std=gnu11", "-fsyntax-only", "-Xclang", "-ast-dump=json",
           "-I" + os.path.join(repo, "acquire-video-runtime/src"),
           "-I" + os.path.join(repo, "acquire-core-libs/src/acquire-core-platform/linux"), src]
    p = subprocess.run(cmd, capture_output=True, text=True, timeout=120)
    if p.returncode != 0:
        raise Unsupported("clang failed: " + p.stderr[-500:])
    return json.loads(p.stdout), src


def strip(n):
    while n.get("kind") in ("ImplicitCastExpr", "ParenExpr", "CStyleCastExpr"):
        n = n["inner"][0]
    return n


class Walker:
    def __init__(self, funcs):
        self.funcs = funcs          # name -> FunctionDecl
        self.acc = []               # (function, field, write, depth)
        self.waits = []             # (function, depth, in_loop)
        self.notifies = []          # (function, depth)
        self.unlocked_writes = []

    # ---- expressions ---------------------------------------------------
    def self_field(self, n, env):
        """if expression n denotes (part of) a field of *self: return the top-level field name"""
        n = strip(n)
        k = n.get("kind")
        if k == "MemberExpr":
            base = strip(n["inner"][0])
            if base.get("kind") == "DeclRefExpr" and base["referencedDecl"]["name"] in env["selfs"] and n.get("isArrow"):
                return n["name"]
            return self.self_field(base, env)
        if k == "ArraySubscriptExpr":
            return self.self_field(n["inner"][0], env)
        if k == "UnaryOperator" and n.get("opcode") == "*":
            inner = strip(n["inner"][0])
            if inner.get("kind") == "DeclRefExpr" and inner["referencedDecl"]["name"] in env["alias"]:
                return env["alias"][inner["referencedDecl"]["name"]]
            return self.self_field(inner, env)
        if k == "BinaryOperator" and n.get("opcode") in ("+", "-"):
            return self.self_field(n["inner"][0], env) or self.self_field(n["inner"][1], env)
        if k == "DeclRefExpr" and n["referencedDecl"]["name"] in env["alias"] and env.get("deref_alias"):
            return env["alias"][n["referencedDecl"]["name"]]
        return None

    def expr(self, n, env, depth, write=False):
        """record accesses in expression n evaluated at lock depth `depth`; returns new depth"""
        n0 = n
        n = strip(n)
        k = n.get("kind")
        if k is None:
            return depth
        if k in ("IntegerLiteral", "CharacterLiteral", "FloatingLiteral", "StringLiteral", "UnaryExprOrTypeTraitExpr", "ImplicitValueInitExpr"):
            return depth
        if k == "DeclRefExpr":
            return depth
        if k in ("MemberExpr", "ArraySubscriptExpr") or (k == "UnaryOperator" and n.get("opcode") == "*"):
            f = self.self_field(n, env)
            if f and f not in SYNC_FIELDS:
                self.acc.append((env["fn"], f, write, depth))
            for c in n.get("inner", []):
                cc = strip(c)
                if cc.get("kind") not in ("DeclRefExpr",):
                    depth = self.expr(c, env, depth, False) if cc.get("kind") not in ("MemberExpr",) or not f else self.index_exprs(c, env, depth)
            return depth
        if k == "UnaryOperator":
            op = n.get("opcode")
            if op in ("++", "--"):
                return self.expr(n["inner"][0], env, depth, True)
            if op == "&":
                inner = strip(n["inner"][0])
                f = self.self_field(inner, env)
                if f in SYNC_FIELDS:
                    return depth
                return self.expr(inner, env, depth, False)
            return self.expr(n["inner"][0], env, depth, False)
        if k in ("BinaryOperator", "CompoundAssignOperator"):
            op = n.get("opcode")
            if op == "=" or k == "CompoundAssignOperator":
                depth = self.expr(n["inner"][1], env, depth, False)
                if k == "CompoundAssignOperator":
                    self.expr(n["inner"][0], env, depth, False)
                return self.expr(n["inner"][0], env, depth, True)
            depth = self.expr(n["inner"][0], env, depth, False)
            return self.expr(n["inner"][1], env, depth, False)
        if k == "ConditionalOperator":
            for c in n["inner"]:
                depth = self.expr(c, env, depth, False)
            return depth
        if k == "CallExpr":
            callee = strip(n["inner"][0])
            name = callee.get("referencedDecl", {}).get("name")
            args = n["inner"][1:]
            if name == "lock_acquire":
                return depth + 1
            if name == "lock_release":
                if depth == 0:
                    raise Unsupported("lock_release at depth 0 in " + env["fn"])
                return depth - 1
            if name == "condition_variable_wait":
                self.waits.append((env["fn"], depth, env.get("loop_on_self", False)))
                return depth
            if name == "condition_variable_notify_all":
                self.notifies.append((env["fn"], depth))
                return depth
            for a in args:
                depth = self.expr(a, env, depth, False)
            if name in self.funcs and name != env["fn"]:
                # static helper: analyse at the call site's depth if it receives self (or a field of self)
                callee_decl = self.funcs[name]
                params = [p["name"] for p in callee_decl["inner"] if p.get("kind") == "ParmVarDecl"]
                selfs, alias = set(), {}
                for p, a in zip(params, args):
                    a = strip(a)
                    if a.get("kind") == "DeclRefExpr" and a["referencedDecl"]["name"] in env["selfs"]:
                        selfs.add(p)
                    else:
                        f = self.self_field(a, dict(env, deref_alias=True))
                        if f and f not in SYNC_FIELDS:
                            alias[p] = f
                if selfs or alias:
                    sub = {"fn": name + "@" + env["fn"], "selfs": selfs, "alias": alias, "labels": {}}
                    body = [c for c in callee_decl["inner"] if c.get("kind") == "CompoundStmt"][0]
                    out = self.stmt(body, sub, depth)
                    if out is not None and out != depth:
                        raise Unsupported("helper %s changes the lock depth" % name)
            return depth
        if k in ("CompoundLiteralExpr", "InitListExpr"):
            for c in n.get("inner", []):
                depth = self.expr(c, env, depth, False)
            return depth
        if k == "DesignatedInitExpr":
            for c in n.get("inner", []):
                depth = self.expr(c, env, depth, False)
            return depth
        raise Unsupported("expression kind %s in %s" % (k, env["fn"]))

    def index_exprs(self, n, env, depth):
        n = strip(n)
        if n.get("kind") == "ArraySubscriptExpr":
            depth = self.index_exprs(n["inner"][0], env, depth)
            return self.expr(n["inner"][1], env, depth, False)
        if n.get("kind") == "MemberExpr":
            return self.index_exprs(n["inner"][0], env, depth)
        return depth

    # ---- statements ------------------------------------------------------
    def stmt(self, n, env, depth):
        """returns the depth after the statement, or None if control does not fall through"""
        k = n.get("kind")
        if k == "CompoundStmt":
            for c in n.get("inner", []):
                if c.get("kind") == "LabelStmt":
                    lbl = c["name"]
                    want = env["labels"].get(lbl)
                    if depth is None:
                        if want is None:
                            raise Unsupported("label %s reached only by a later goto in %s" % (lbl, env["fn"]))
                        depth = want
                    elif want is not None and want != depth:
                        raise Unsupported("label %s reached at depths %d and %d" % (lbl, want, depth))
                    env["labels"][lbl] = depth
                    depth = self.stmt(c["inner"][0], env, depth)
                    continue
                if depth is None:
                    raise Unsupported("unreachable statement in " + env["fn"])
                depth = self.stmt(c, env, depth)
            return depth
        if k == "NullStmt":
            return depth
        if k == "DeclStmt":
            for d in n.get("inner", []):
                if d.get("kind") == "VarDecl" and d.get("inner"):
                    init = d["inner"][-1]
                    f = self.self_field(init, dict(env, deref_alias=False))
                    is_ptr = "*" in d.get("type", {}).get("qualType", "")
                    depth = self.expr(init, env, depth, False)
                    if f and is_ptr and f not in SYNC_FIELDS:
                        env["alias"][d["name"]] = f
            return depth
        if k == "IfStmt":
            parts = n["inner"]
            depth = self.expr(parts[0], env, depth, False)
            d1 = self.stmt(parts[1], env, depth)
            d2 = self.stmt(parts[2], env, depth) if len(parts) > 2 else depth
            outs = set(x for x in (d1, d2) if x is not None)
            if len(outs) > 1:
                raise Unsupported("branches of an if end at different lock depths in " + env["fn"])
            return outs.pop() if outs else None
        if k in ("WhileStmt", "ForStmt", "DoStmt"):
            parts = [p for p in n["inner"] if p]
            body = parts[-1] if k != "DoStmt" else parts[0]
            conds = parts[:-1] if k != "DoStmt" else parts[1:]
            on_self = False
            for c in conds:
                if c.get("kind"):
                    before = len(self.acc)
                    if c.get("kind") == "DeclStmt":
                        depth = self.stmt(c, env, depth)
                    else:
                        depth = self.expr(c, env, depth, False)
                    on_self = on_self or len(self.acc) > before
            sub = dict(env, loop_on_self=on_self)
            out = self.stmt(body, sub, depth)
            if out is not None and out != depth:
                raise Unsupported("loop body changes the lock depth in " + env["fn"])
            return depth
        if k == "GotoStmt":
            # find label name
            target = n.get("targetLabelDeclId")
            name = env["label_ids"].get(target)
            if name is None:
                raise Unsupported("goto to unknown label in " + env["fn"])
            want = env["labels"].get(name)
            if want is not None and want != depth:
                raise Unsupported("label %s reached at depths %d and %d" % (name, want, depth))
            env["labels"][name] = depth
            return None
        if k == "ReturnStmt":
            for c in n.get("inner", []):
                depth = self.expr(c, env, depth, False)
            if depth != 0 and "@" not in env["fn"]:
                raise Unsupported("return with the lock held in " + env["fn"])
            env.setdefault("returns", []).append(depth)
            return None
        if k == "LabelStmt":
            raise Unsupported("nested label in " + env["fn"])
        # expression statement
        return self.expr(n, env, depth, False)


def collect_label_ids(n, out):
    if n.get("kind") == "LabelStmt":
        out[n.get("declId")] = n["name"]
    for c in n.get("inner", []):
        if isinstance(c, dict):
            collect_label_ids(c, out)


def extract(repo):
    ast, src = clang_ast(repo)
    funcs = {}
    for c in ast.get("inner", []):
        if c.get("kind") == "FunctionDecl" and any(x.get("kind") == "CompoundStmt" for x in c.get("inner", [])):
            if c.get("loc", {}).get("includedFrom") or c.get("loc", {}).get("file", src) != src and "file" in c.get("loc", {}):
                continue
            funcs[c["name"]] = c
    w = Walker(funcs)
    public = []
    for name, f in funcs.items():
        params = [p for p in f["inner"] if p.get("kind") == "ParmVarDecl"]
        if not params or "struct channel *" not in params[0].get("type", {}).get("qualType", ""):
            continue
        if f.get("storageClass") == "static":
            continue  # analysed at their call sites
        public.append(name)
        ids = {}
        collect_label_ids(f, ids)
        env = {"fn": name, "selfs": {params[0]["name"]}, "alias": {}, "labels": {}, "label_ids": ids}
        body = [c for c in f["inner"] if c.get("kind") == "CompoundStmt"][0]
        out = w.stmt(body, env, 0)
        if out not in (None, 0):
            raise Unsupported("%s ends with the lock held" % name)
    return w, sorted(public)


def lean_source(w, public):
    fnames = sorted(set(a[0] for a in w.acc) | set(x[0] for x in w.waits) | set(x[0] for x in w.notifies) | set(public))
    fid = {n: i for i, n in enumerate(fnames)}
    fld = {n: i for i, n in enumerate(FIELDS)}
    acc = sorted(set(w.acc))
    lines = ["/-! GENERATED by extract/syncskel.py from acquire-video-runtime/src/runtime/channel.c -- do not edit.",
             "Lock depth at every access to a field of `struct channel`, and where the condition variable is used. -/",
             "namespace AcqVerif.Generated.SyncSkeleton", "",
             "/-- function ids: " + ", ".join("%d=%s" % (i, n) for n, i in sorted(fid.items(), key=lambda x: x[1])) + " -/",
             "def functionCount : Nat := %d" % len(fnames),
             "/-- field ids: " + ", ".join("%d=%s" % (i, n) for n, i in sorted(fld.items(), key=lambda x: x[1])) + " -/",
             "def fieldCapacity : Nat := %d" % fld["capacity"], "def fieldData : Nat := %d" % fld["data"],
             "def fieldHolds : Nat := %d" % fld["holds"], "def fieldAccepting : Nat := %d" % fld["is_accepting_writes"], "",
             "/-- ids of channel_new / channel_release (construction and shutdown: single-threaded by contract) -/",
             "def lifecycleFns : List Nat := [%s]" % ", ".join(str(fid[n]) for n in fnames if n.split("@")[-1] in ("channel_new", "channel_release") and n in fid), "",
             "/-- (function, field, is-write, lock depth) for every access -/",
             "def accesses : List (Nat × Nat × Bool × Nat) := ["]
    lines += ["  (%d, %d, %s, %d)%s  -- %s %s %s" % (fid[f], fld.get(fl, 99), "true" if wr else "false", d, "," if i + 1 < len(acc) else "", f, fl, "write" if wr else "read")
              for i, (f, fl, wr, d) in enumerate(acc)]
    lines += ["]", "",
              "/-- (function, lock depth, inside a loop whose condition reads the channel) for every condition_variable_wait -/",
              "def waits : List (Nat × Nat × Bool) := [%s]" % ", ".join("(%d, %d, %s)" % (fid[f], d, "true" if l else "false") for f, d, l in w.waits),
              "/-- (function, lock depth) for every condition_variable_notify_all -/",
              "def notifies : List (Nat × Nat) := [%s]" % ", ".join("(%d, %d)" % (fid[f], d) for f, d in sorted(set(w.notifies))),
              "", "end AcqVerif.Generated.SyncSkeleton", ""]
    return "\n".join(lines)


def main():
    repo = os.environ.get("ACQ_REPO", "/repo")
    w, public = extract(repo)
    sys.stdout.write(lean_source(w, public))


if __name__ == "__main__":
    main()
