// Conformance of the REAL acquire-core-platform/linux/platform.c with the contract the deterministic scheduler (harness/detsched)
// implements in its place.  Every runtime check replaces platform.c's threads, locks and condition variables by detsched; what those
// checks conclude about the real runtime holds only if platform.c keeps the same contract.  Real threads, generous time-outs,
// repeated; each line of output is one verdict:
//     ok <test>            the contract held in every repetition
//     ORACLE <test> ...    it did not
#define _GNU_SOURCE
#include "platform.h"
#include <stdio.h>
#include <stdlib.h>
#include <unistd.h>
#include <time.h>
#include <stdatomic.h>

void aq_logger(int is_error, const char* file, int line, const char* function, const char* fmt, ...) { (void)is_error; (void)file; (void)line; (void)function; (void)fmt; }

static void msleep(int ms) { struct timespec ts = { ms / 1000, (ms % 1000) * 1000000L }; nanosleep(&ts, 0); }

// ---- join: a join returns only after the thread function has returned, for every joiner --------------------------------------------
static struct thread g_worker;
static atomic_int g_worker_done;
static void slow_worker(void* arg) { msleep((int)(intptr_t)arg); atomic_store(&g_worker_done, 1); }
static atomic_int g_join_early;
static void joiner(void* arg)
{
    msleep((int)(intptr_t)arg);
    thread_join(&g_worker);
    if (!atomic_load(&g_worker_done)) atomic_fetch_add(&g_join_early, 1);
}
static int test_join_two(void)
{
    for (int rep = 0; rep < 6; ++rep) {
        atomic_store(&g_worker_done, 0); atomic_store(&g_join_early, 0);
        thread_init(&g_worker);
        thread_create(&g_worker, slow_worker, (void*)(intptr_t)(60 + 10 * rep));
        struct thread j1, j2;
        thread_init(&j1); thread_init(&j2);
        thread_create(&j1, joiner, (void*)(intptr_t)0);
        thread_create(&j2, joiner, (void*)(intptr_t)(5 + 7 * rep));   // arrives while the first joiner is still waiting
        thread_join(&j1); thread_join(&j2);
        if (atomic_load(&g_join_early)) { printf("ORACLE join-returned-before-the-thread-ended rep=%d joiners=%d\n", rep, atomic_load(&g_join_early)); return 1; }
        thread_join(&g_worker);   // joining again is a no-op
    }
    struct thread never;
    thread_init(&never);
    thread_join(&never);         // never started: returns at once
    printf("ok join-two-joiners\n");
    return 0;
}

// ---- notify_all wakes every waiter ------------------------------------------------------------------------------------------------
static struct lock g_lock;
static struct condition_variable g_cv;
static int g_flag;
static atomic_int g_awake, g_waiting;
static void waiter(void* arg)
{
    (void)arg;
    lock_acquire(&g_lock);
    atomic_fetch_add(&g_waiting, 1);
    while (!g_flag) condition_variable_wait(&g_cv, &g_lock);
    lock_release(&g_lock);
    atomic_fetch_add(&g_awake, 1);
}
static int test_notify_all(void)
{
    for (int rep = 0; rep < 6; ++rep) {
        enum { N = 3 };
        struct thread t[N];
        lock_init(&g_lock); condition_variable_init(&g_cv);
        g_flag = 0; atomic_store(&g_awake, 0); atomic_store(&g_waiting, 0);
        for (int i = 0; i < N; ++i) { thread_init(&t[i]); thread_create(&t[i], waiter, 0); }
        for (int spin = 0; spin < 20000 && atomic_load(&g_waiting) < N; ++spin) msleep(1);
        msleep(20);   // let the last one reach the wait
        lock_acquire(&g_lock); g_flag = 1; lock_release(&g_lock);
        condition_variable_notify_all(&g_cv);      // ONE notification
        for (int spin = 0; spin < 15000 && atomic_load(&g_awake) < N; ++spin) msleep(1);   // (generous: the machine may be busy)
        int awake = atomic_load(&g_awake);
        if (awake < N) {
            printf("ORACLE notify_all-did-not-wake-every-waiter rep=%d awake=%d of %d\n", rep, awake, N);
            // release the stragglers so that the process can end
            for (int k = 0; k < 50 && atomic_load(&g_awake) < N; ++k) { condition_variable_notify_all(&g_cv); msleep(5); }
            for (int i = 0; i < N; ++i) thread_join(&t[i]);
            return 1;
        }
        for (int i = 0; i < N; ++i) thread_join(&t[i]);
    }
    printf("ok notify_all-wakes-every-waiter\n");
    return 0;
}

// ---- mutual exclusion, and wait releases the lock ----------------------------------------------------------------------------------
static long g_counter;
static void incr(void* arg) { for (int i = 0; i < (int)(intptr_t)arg; ++i) { lock_acquire(&g_lock); long c = g_counter; if ((i & 1023) == 0) sched_yield(); g_counter = c + 1; lock_release(&g_lock); } }
static int test_mutex(void)
{
    enum { N = 4, K = 20000 };
    struct thread t[N];
    lock_init(&g_lock); g_counter = 0;
    for (int i = 0; i < N; ++i) { thread_init(&t[i]); thread_create(&t[i], incr, (void*)(intptr_t)K); }
    for (int i = 0; i < N; ++i) thread_join(&t[i]);
    if (g_counter != (long)N * K) { printf("ORACLE lock-is-not-mutually-exclusive counter=%ld expected=%ld\n", g_counter, (long)N * K); return 1; }
    printf("ok lock-mutual-exclusion\n");
    return 0;
}
static atomic_int g_got_lock;
static void taker(void* arg) { (void)arg; lock_acquire(&g_lock); atomic_store(&g_got_lock, 1); g_flag = 1; lock_release(&g_lock); condition_variable_notify_all(&g_cv); }
static int test_wait_releases(void)
{
    struct thread t;
    lock_init(&g_lock); condition_variable_init(&g_cv); g_flag = 0; atomic_store(&g_got_lock, 0);
    lock_acquire(&g_lock);
    thread_init(&t); thread_create(&t, taker, 0);
    msleep(30);
    if (atomic_load(&g_got_lock)) { printf("ORACLE lock-taken-while-held\n"); lock_release(&g_lock); thread_join(&t); return 1; }
    while (!g_flag) condition_variable_wait(&g_cv, &g_lock);   // must release the lock while waiting, and hold it again afterwards
    int ok = atomic_load(&g_got_lock);
    lock_release(&g_lock);
    thread_join(&t);
    if (!ok) { printf("ORACLE wait-did-not-release-the-lock\n"); return 1; }
    printf("ok wait-releases-and-reacquires\n");
    return 0;
}

// ---- a join that gives up after a while is not a join: for the deterministic scheduler (and for acquire.c) "joined" means "gone".
// The time-limited joins of glibc are wrapped at link time; here time has always run out already (or the thread has ended).
#include <errno.h>
int __real_pthread_timedjoin_np(pthread_t t, void** r, const struct timespec* ts);
int __real_pthread_tryjoin_np(pthread_t t, void** r);
int __real_pthread_clockjoin_np(pthread_t t, void** r, clockid_t c, const struct timespec* ts);
int __wrap_pthread_tryjoin_np(pthread_t t, void** r) { return __real_pthread_tryjoin_np(t, r); }
int __wrap_pthread_timedjoin_np(pthread_t t, void** r, const struct timespec* ts) { (void)ts; int e = __real_pthread_tryjoin_np(t, r); return e == EBUSY ? ETIMEDOUT : e; }
int __wrap_pthread_clockjoin_np(pthread_t t, void** r, clockid_t c, const struct timespec* ts) { (void)c; (void)ts; int e = __real_pthread_tryjoin_np(t, r); return e == EBUSY ? ETIMEDOUT : e; }

// ---- a notification that arrives while a thread is on its way into the wait is harmless; the next one still wakes it ----------------
// (pthread_cond_wait is wrapped at link time so that the waiter can be held right at its entry, lock still held)
int __real_pthread_cond_wait(pthread_cond_t* c, pthread_mutex_t* m);
static atomic_int g_hold_waiter, g_waiter_at_entry;
int __wrap_pthread_cond_wait(pthread_cond_t* c, pthread_mutex_t* m)
{
    if (atomic_load(&g_hold_waiter)) {
        atomic_store(&g_waiter_at_entry, 1);
        for (int spin = 0; spin < 30000 && atomic_load(&g_hold_waiter); ++spin) msleep(1);
    }
    return __real_pthread_cond_wait(c, m);
}
static int test_notify_during_wait_entry(void)
{
    for (int rep = 0; rep < 3; ++rep) {
        struct thread t;
        lock_init(&g_lock); condition_variable_init(&g_cv);
        g_flag = 0; atomic_store(&g_awake, 0); atomic_store(&g_waiting, 0); atomic_store(&g_waiter_at_entry, 0);
        atomic_store(&g_hold_waiter, 1);
        thread_init(&t); thread_create(&t, waiter, 0);
        for (int spin = 0; spin < 20000 && !atomic_load(&g_waiter_at_entry); ++spin) msleep(1);
        condition_variable_notify_all(&g_cv);      // a late notification of something that happened earlier: nobody is asleep yet
        atomic_store(&g_hold_waiter, 0);           // the waiter goes to sleep now
        msleep(30);
        lock_acquire(&g_lock); g_flag = 1; lock_release(&g_lock);
        condition_variable_notify_all(&g_cv);      // the notification that matters
        for (int spin = 0; spin < 15000 && !atomic_load(&g_awake); ++spin) msleep(1);
        if (!atomic_load(&g_awake)) {
            printf("ORACLE notify_all-after-an-early-notification-did-not-wake-the-waiter rep=%d\n", rep);
            for (int k = 0; k < 100 && !atomic_load(&g_awake); ++k) { pthread_cond_broadcast(&g_cv.inner_); msleep(5); }
            thread_join(&t);
            return 1;
        }
        thread_join(&t);
    }
    printf("ok notify-during-wait-entry\n");
    return 0;
}

// ---- events: a notification is latched until one waiter has taken it (auto-reset); a wait blocks until then ---------------------------
static struct event g_ev;
static atomic_int g_ev_passed;
static void ev_waiter(void* arg) { (void)arg; event_wait(&g_ev); atomic_fetch_add(&g_ev_passed, 1); }
static int test_event(void)
{
    for (int rep = 0; rep < 4; ++rep) {
        struct thread t;
        // (a) notify first, wait later: the wait returns at once (latched) ...
        event_init(&g_ev); atomic_store(&g_ev_passed, 0);
        event_notify_all(&g_ev);
        thread_init(&t); thread_create(&t, ev_waiter, 0);
        for (int spin = 0; spin < 15000 && !atomic_load(&g_ev_passed); ++spin) msleep(1);
        if (!atomic_load(&g_ev_passed)) { printf("ORACLE event-notification-before-the-wait-was-lost rep=%d\n", rep); event_notify_all(&g_ev); thread_join(&t); return 1; }
        thread_join(&t);
        // ... and has consumed the notification: the next wait blocks until the next notification
        atomic_store(&g_ev_passed, 0);
        thread_init(&t); thread_create(&t, ev_waiter, 0);
        msleep(40);
        if (atomic_load(&g_ev_passed)) { printf("ORACLE event-wait-returned-without-a-notification rep=%d\n", rep); thread_join(&t); return 1; }
        event_notify_all(&g_ev);
        for (int spin = 0; spin < 15000 && !atomic_load(&g_ev_passed); ++spin) msleep(1);
        if (!atomic_load(&g_ev_passed)) { printf("ORACLE event-wait-not-released-by-notify rep=%d\n", rep); return 1; }
        thread_join(&t);
        event_destroy(&g_ev);
    }
    printf("ok event-latched-auto-reset\n");
    return 0;
}

// ---- clock: a sleep lasts at least (about) as long as asked, and toc measures it -----------------------------------------------------
static int test_clock(void)
{
    struct clock c;
    clock_init(&c);
    clock_tic(&c);
    clock_sleep_ms(0, 30.0f);
    double ms = clock_toc_ms(&c);
    if (ms < 20.0 || ms > 120000.0) { printf("ORACLE clock-sleep-30ms-measured-as %.3f ms\n", ms); return 1; }
    printf("ok clock-sleep-and-toc\n");
    return 0;
}

int main(void)
{
    alarm(600);
    int bad = 0;
    setvbuf(stdout, 0, _IOLBF, 0);
    bad |= test_join_two();
    bad |= test_notify_all();
    bad |= test_mutex();
    bad |= test_wait_releases();
    bad |= test_notify_during_wait_entry();
    bad |= test_event();
    bad |= test_clock();
    return bad ? 1 : 0;
}
