/* h_simcam_shape — correspondence harness + property oracle for C17.
 *
 * Compiles the REAL simulated.camera.c (by #include, so that the static functions
 * `bin2`, `im_fill_rand`, `im_fill_pattern` and `struct SimulatedCamera` are reachable;
 * nothing is redefined) together with the real bin2.{avx2,plain}.c it includes,
 * imfill.pattern.cpp, popcount.cpp, pcg_basic.c, components.c, logger.c and the real
 * linux/platform.c (threads).  Built with ASan+UBSan, once with -mavx2 and once without.
 *
 * Line protocol (same as lean/Driver/SimcamMain.lean):
 *   new <kind>
 *   set <exposure bits> <line interval bits> <readout> <binning> <pixel type> <ox> <oy> <sx> <sy> <24 trigger fields>
 *   start | stop | obs
 *   frame <d>                 get_frame with *nbytes = max(0, bytes_of_image + d) into a heap buffer of
 *                             exactly that size, pre-filled with a canary
 *   tight bin2 <w> <h> <size> <off>            } run in a child process on a heap buffer of exactly
 *   tight fill <kind> <type> <w> <h> <size> <off> } <size> bytes whose base is 64-aligned + <off>
 *
 * Every camera operation prints `<result> | <digest>`; the digest is everything
 * get / get_shape / get_meta return plus the allocated sizes of the two image buffers
 * (ASan's bookkeeping) and the running flag.  `ORACLE <kind> …` lines are produced by checks
 * that look only at the implementation's behaviour (never at the model).
 *
 * Options: --no-alloc  print A[? ?] instead of the allocated sizes (used for runs with
 *                      ASAN_OPTIONS=max_redzone=16, where the sizes of huge blocks are not available)
 */
#include <sys/prctl.h>
#include <signal.h>
#include "simcams/simulated.camera.c"

#include <inttypes.h>
#include <signal.h>
#include <stdarg.h>
#include <stdio.h>
#include <time.h>
#include <string.h>
#include <sys/wait.h>
#include <unistd.h>

#if defined(__SANITIZE_ADDRESS__)
size_t
__sanitizer_get_allocated_size(const volatile void* p);
int
__sanitizer_get_ownership(const volatile void* p);
#define HAVE_ASAN 1
#else
#include <malloc.h>
#define HAVE_ASAN 0
#endif

static struct Camera* g_cam = 0;
static int g_no_alloc = 0;
static const char* g_op = "";

static void
on_alarm(int sig)
{
    (void)sig;
    static const char msg[] = "\nTIMEOUT in operation\n";
    ssize_t r = write(1, msg, sizeof(msg) - 1);
    (void)r;
    _exit(3);
}

static unsigned
bits_of(float f)
{
    unsigned u;
    memcpy(&u, &f, 4);
    return u;
}

static float
float_of(unsigned u)
{
    float f;
    memcpy(&f, &u, 4);
    return f;
}

/* sizes of the sample types as documented in components.h (independent of bytes_of_type) */
static size_t
own_sizeof(unsigned t)
{
    static const size_t table[] = { 1, 2, 1, 2, 4, 2, 2, 2 };
    return t < 8 ? table[t] : 0;
}

static size_t
alloc_size(void* p)
{
    if (!p)
        return 0;
#if HAVE_ASAN
    return __sanitizer_get_ownership(p) ? __sanitizer_get_allocated_size(p) : 0;
#else
    return malloc_usable_size(p);
#endif
}

static void
print_trig(const struct Trigger* t, const char* sep)
{
    printf("%u:%u:%u:%u%s", (unsigned)t->enable, (unsigned)t->line, (unsigned)t->kind, (unsigned)t->edge, sep);
}

static void
print_shape(const struct ImageShape* s)
{
    printf("[%u %u %u %u %lld %lld %lld %lld %u]",
           s->dims.channels,
           s->dims.width,
           s->dims.height,
           s->dims.planes,
           (long long)s->strides.channels,
           (long long)s->strides.width,
           (long long)s->strides.height,
           (long long)s->strides.planes,
           (unsigned)s->type);
}

static void
print_float_as_nat(float f)
{
    if (f >= 0 && f < 1e9f && f == (float)(unsigned long long)f)
        printf("%llu", (unsigned long long)f);
    else
        printf("f%u", bits_of(f));
}

static void
oracle(const char* kind, const char* fmt, ...)
{
    va_list ap;
    printf("\nORACLE %s op=%s ", kind, g_op);
    va_start(ap, fmt);
    vprintf(fmt, ap);
    va_end(ap);
}

/* digest + the oracles that hold in every state */
static void
digest(void)
{
    struct CameraProperties p;
    struct ImageShape s;
    struct CameraPropertyMetadata m;
    struct SimulatedCamera* self = containerof(g_cam, struct SimulatedCamera, camera);
    memset(&p, 0, sizeof(p));
    memset(&s, 0, sizeof(s));
    memset(&m, 0, sizeof(m));
    g_cam->get(g_cam, &p);
    g_cam->get_shape(g_cam, &s);
    g_cam->get_meta(g_cam, &m);
    printf("P[%u %u %u %u %u %u %u %u %u | ",
           bits_of(p.exposure_time_us),
           bits_of(p.line_interval_us),
           (unsigned)p.readout_direction,
           (unsigned)p.binning,
           (unsigned)p.pixel_type,
           p.offset.x,
           p.offset.y,
           p.shape.x,
           p.shape.y);
    print_trig(&p.input_triggers.acquisition_start, " ");
    print_trig(&p.input_triggers.frame_start, " ");
    print_trig(&p.input_triggers.exposure, " ");
    print_trig(&p.output_triggers.exposure, " ");
    print_trig(&p.output_triggers.frame_start, " ");
    print_trig(&p.output_triggers.trigger_wait, "] S");
    print_shape(&s);
    printf(" M[");
    print_float_as_nat(m.binning.low);
    printf(" ");
    print_float_as_nat(m.binning.high);
    printf(" ");
    print_float_as_nat(m.shape.x.low);
    printf(" ");
    print_float_as_nat(m.shape.x.high);
    printf(" ");
    print_float_as_nat(m.shape.y.low);
    printf(" ");
    print_float_as_nat(m.shape.y.high);
    printf(" ");
    print_float_as_nat(m.offset.x.high);
    printf(" ");
    print_float_as_nat(m.offset.y.high);
    printf(" %llu] A[", (unsigned long long)m.supported_pixel_types);
    if (g_no_alloc) {
        printf("? ?");
    } else {
        if (self->im.frame_data)
            printf("%zu ", alloc_size(self->im.frame_data));
        else
            printf("- ");
        if (self->im.render_data)
            printf("%zu", alloc_size(self->im.render_data));
        else
            printf("-");
    }
    printf("] run=%d", self->streamer.is_running ? 1 : 0);

    /* --- property oracles on the reported values (implementation only) --- */
    if (!(s.dims.width >= 1 && (float)s.dims.width >= m.shape.x.low && (float)s.dims.width <= m.shape.x.high &&
          s.dims.height >= 1 && (float)s.dims.height >= m.shape.y.low && (float)s.dims.height <= m.shape.y.high))
        oracle("dims-out-of-range", "w=%u h=%u allowed x=[%g,%g] y=[%g,%g]", s.dims.width, s.dims.height,
               m.shape.x.low, m.shape.x.high, m.shape.y.low, m.shape.y.high);
    if (!(s.dims.channels == 1 && s.dims.planes == 1 && s.strides.channels == 1 && s.strides.width == 1 &&
          s.strides.height == (int64_t)s.dims.width &&
          s.strides.planes == (int64_t)s.dims.width * (int64_t)s.dims.height))
        oracle("strides-do-not-match-dims", "w=%u h=%u strides=%lld,%lld,%lld,%lld", s.dims.width, s.dims.height,
               (long long)s.strides.channels, (long long)s.strides.width, (long long)s.strides.height,
               (long long)s.strides.planes);
    if (!(p.shape.x == s.dims.width && p.shape.y == s.dims.height && p.pixel_type == s.type))
        oracle("get-disagrees-with-get_shape", "get: %ux%u type %u, get_shape: %ux%u type %u", p.shape.x, p.shape.y,
               (unsigned)p.pixel_type, s.dims.width, s.dims.height, (unsigned)s.type);
    if (own_sizeof(s.type) && bytes_of_image(&s) != (size_t)s.dims.width * s.dims.height * own_sizeof(s.type))
        oracle("bytes_of_image", "%zu for %ux%u type %u", bytes_of_image(&s), s.dims.width, s.dims.height, (unsigned)s.type);
}

static void
prefill_internal(void)
{
    /* known content in the camera's own buffers (the Empty camera never writes them) */
    struct SimulatedCamera* self = containerof(g_cam, struct SimulatedCamera, camera);
    if (self->im.frame_data)
        memset(self->im.frame_data, 0x3C, alloc_size(self->im.frame_data));
    if (self->im.render_data)
        memset(self->im.render_data, 0x3C, alloc_size(self->im.render_data));
}

static int
parse_trig(char** tok, struct Trigger* t)
{
    unsigned v[4];
    for (int i = 0; i < 4; ++i) {
        char* x = strtok_r(0, " \n", tok);
        if (!x)
            return 0;
        v[i] = (unsigned)strtoul(x, 0, 10);
    }
    t->enable = (uint8_t)v[0];
    t->line = (uint8_t)v[1];
    t->kind = (enum SignalIOKind)v[2];
    t->edge = (enum TriggerEdge)v[3];
    return 1;
}

static void
op_set(char** tok)
{
    unsigned long long v[9];
    struct CameraProperties st;
    memset(&st, 0, sizeof(st));
    for (int i = 0; i < 9; ++i) {
        char* x = strtok_r(0, " \n", tok);
        if (!x) {
            printf("bad-op\n");
            return;
        }
        v[i] = strtoull(x, 0, 10);
    }
    struct SimulatedCamera* self = containerof(g_cam, struct SimulatedCamera, camera);
    if (!(parse_trig(tok, &st.input_triggers.acquisition_start) && parse_trig(tok, &st.input_triggers.frame_start) &&
          parse_trig(tok, &st.input_triggers.exposure) && parse_trig(tok, &st.output_triggers.exposure) &&
          parse_trig(tok, &st.output_triggers.frame_start) && parse_trig(tok, &st.output_triggers.trigger_wait))) {
        printf("bad-op\n");
        return;
    }
    int parked = 0;
    if (self->streamer.is_running && v[3] <= 255 && v[7] <= 0xffffffffull && v[8] <= 0xffffffffull) {
        /* a set on a started camera is within the quantifier only while the streamer is parked waiting for a software
         * trigger and the new settings keep that trigger enabled (otherwise set races with the renderer) */
        struct CameraProperties cur;
        g_cam->get(g_cam, &cur);
        if (cur.input_triggers.frame_start.enable && st.input_triggers.frame_start.enable) {
            struct timespec ts = { 0, 30 * 1000 * 1000 };
            nanosleep(&ts, 0); /* let the streamer reach its wait (after start, or after the frame it has just published) */
            parked = 1;
        }
    }
    if ((self->streamer.is_running && !parked) || v[3] > 255 || v[7] > 0xffffffffull || v[8] > 0xffffffffull) {
        /* outside the quantifier (set races with the running streamer / value not representable) */
        printf("illformed | ");
        digest();
        printf("\n");
        return;
    }
    st.exposure_time_us = float_of((unsigned)v[0]);
    st.line_interval_us = float_of((unsigned)v[1]);
    st.readout_direction = (enum Direction)v[2];
    st.binning = (uint8_t)v[3];
    st.pixel_type = (enum SampleType)v[4];
    st.offset.x = (uint32_t)v[5];
    st.offset.y = (uint32_t)v[6];
    st.shape.x = (uint32_t)v[7];
    st.shape.y = (uint32_t)v[8];
    struct CameraProperties before, after;
    struct ImageShape sbefore, safter;
    g_cam->get(g_cam, &before);
    g_cam->get_shape(g_cam, &sbefore);
    const struct CameraProperties req = st;
    enum DeviceStatusCode ec = g_cam->set(g_cam, &st);
    printf("set st=%s bin=%u | ", ec == Device_Ok ? "ok" : "err", (unsigned)st.binning);
    digest();
    g_cam->get(g_cam, &after);
    g_cam->get_shape(g_cam, &safter);
    if (ec == Device_Ok) {
        struct CameraPropertyMetadata m;
        g_cam->get_meta(g_cam, &m);
        /* reported dims are the clamped request */
        uint32_t lo = (uint32_t)m.shape.x.low, hi = (uint32_t)m.shape.x.high;
        uint32_t ex = req.shape.x < lo ? lo : (req.shape.x > hi ? hi : req.shape.x);
        lo = (uint32_t)m.shape.y.low, hi = (uint32_t)m.shape.y.high;
        uint32_t ey = req.shape.y < lo ? lo : (req.shape.y > hi ? hi : req.shape.y);
        if (safter.dims.width != ex || safter.dims.height != ey)
            oracle("dims-not-clamped-request", "requested %ux%u reported %ux%u expected %ux%u", req.shape.x, req.shape.y,
                   safter.dims.width, safter.dims.height, ex, ey);
        /* values read back are the ones that were set / are in effect */
        unsigned eb = req.binning ? req.binning : 1;
        if (!(bits_of(after.exposure_time_us) == bits_of(req.exposure_time_us) &&
              bits_of(after.line_interval_us) == bits_of(req.line_interval_us) &&
              after.readout_direction == req.readout_direction && after.binning == eb &&
              after.pixel_type == req.pixel_type && after.offset.x == req.offset.x && after.offset.y == req.offset.y &&
              after.input_triggers.frame_start.enable == req.input_triggers.frame_start.enable &&
              !memcmp(&after.output_triggers, &req.output_triggers, sizeof(req.output_triggers)) &&
              safter.type == req.pixel_type))
            oracle("get-after-set", "values read back differ from the accepted settings");
        if ((float)eb < m.binning.low || popcount_u8((uint8_t)eb) != 1)
            oracle("accepted-binning", "binning %u accepted", eb);
        prefill_internal();
    } else {
        if (memcmp(&before, &after, sizeof(before)) || memcmp(&sbefore, &safter, sizeof(sbefore)))
            oracle("rejected-set-changed-state", "get/get_shape differ after a set that returned Device_Err");
    }
    printf("\n");
}

static void
op_frame(long long d)
{
    struct SimulatedCamera* self = containerof(g_cam, struct SimulatedCamera, camera);
    struct ImageShape s;
    struct CameraProperties p;
    g_cam->get_shape(g_cam, &s);
    g_cam->get(g_cam, &p);
    long long want = (long long)bytes_of_image(&s) + d;
    size_t nbytes = want < 0 ? 0 : (size_t)want;
    const size_t expect = (size_t)s.dims.width * s.dims.height * own_sizeof(s.type);
    static const unsigned char canary[3] = { 0xA5, 0x5A, 0xC3 };
    unsigned char* buf = (unsigned char*)malloc(nbytes ? nbytes : 1);
    size_t hi = 0;
    int tail_bad = 0;
    enum DeviceStatusCode ec = Device_Err;
    struct ImageInfo info;
    memset(&info, 0, sizeof(info));
    for (int attempt = 0; attempt < 3; ++attempt) {
        memset(buf, canary[attempt], nbytes ? nbytes : 1);
        if (self->streamer.is_running && p.input_triggers.frame_start.enable)
            g_cam->execute_trigger(g_cam);
        size_t n = nbytes;
        ec = g_cam->get_frame(g_cam, buf, &n, &info);
        size_t h = nbytes;
        while (h > 0 && buf[h - 1] == canary[attempt])
            --h;
        if (h > hi)
            hi = h;
        if (ec != Device_Ok || hi >= expect)
            break; /* retry only when the last bytes of the image happen to equal the canary */
    }
    if (ec == Device_Ok) {
        printf("frame st=ok n=%zu info=", hi);
        print_shape(&info.shape);
    } else {
        printf("frame st=err n=%zu info=-", hi);
    }
    printf(" | ");
    digest();
    if (ec == Device_Ok) {
        if (hi != expect)
            oracle("frame-bytes", "get_frame stored %zu bytes, the reported shape %ux%u type %u has %zu (tail %s)", hi,
                   s.dims.width, s.dims.height, (unsigned)s.type, expect, tail_bad ? "bad" : "ok");
        if (memcmp(&info.shape, &s, sizeof(s)))
            oracle("frame-info-shape", "info.shape differs from get_shape");
        if (nbytes < expect)
            oracle("frame-accepted-short-buffer", "nbytes=%zu image=%zu", nbytes, expect);
    } else if (hi != 0) {
        oracle("frame-bytes", "get_frame failed but stored %zu bytes", hi);
    }
    free(buf);
    printf("\n");
}

/* ---- tight-buffer runs (child process; the parent classifies the outcome) ---- */
static void
tight_child(int is_fill, int kind, unsigned type, int w, int h, size_t size, size_t off)
{
    unsigned char* base = 0;
    if (posix_memalign((void**)&base, 64, size + off ? size + off : 1))
        _exit(9);
    memset(base, 0x11, size + off);
    unsigned char* buf = base + off;
    if (!is_fill) {
        bin2(buf, w, h);
    } else {
        struct ImageShape shape = { .dims = { .channels = 1, .width = (uint32_t)w, .height = (uint32_t)h, .planes = 1 },
                                    .type = (enum SampleType)type };
        compute_strides(&shape);
        if (kind == BasicDevice_Camera_Random)
            im_fill_rand(&shape, buf);
        else if (kind == BasicDevice_Camera_Sin)
            im_fill_pattern(&shape, 0.0f, 0.0f, buf);
    }
    free(base);
    _exit(0);
}

static void
op_tight(char** tok)
{
    char* what = strtok_r(0, " \n", tok);
    long long a[6] = { 0 };
    int is_fill = what && !strcmp(what, "fill");
    int na = is_fill ? 6 : 4;
    if (!what || (!is_fill && strcmp(what, "bin2"))) {
        printf("bad-op\n");
        return;
    }
    for (int i = 0; i < na; ++i) {
        char* x = strtok_r(0, " \n", tok);
        if (!x) {
            printf("bad-op\n");
            return;
        }
        a[i] = strtoll(x, 0, 10);
    }
    int kind = 0, w, h;
    unsigned type = 0;
    size_t size, off;
    if (is_fill) {
        kind = (int)a[0], type = (unsigned)a[1], w = (int)a[2], h = (int)a[3], size = (size_t)a[4], off = (size_t)a[5];
    } else {
        w = (int)a[0], h = (int)a[1], size = (size_t)a[2], off = (size_t)a[3];
    }
    int fd[2];
    if (pipe(fd)) {
        printf("tight error pipe\n");
        return;
    }
    fflush(stdout);
    pid_t pid = fork();
    if (pid == 0) {
        prctl(PR_SET_PDEATHSIG, SIGKILL);
        close(fd[0]);
        dup2(fd[1], 2);
        signal(SIGALRM, SIG_DFL);
        alarm(20);
        tight_child(is_fill, kind, type, w, h, size, off);
        _exit(0);
    }
    close(fd[1]);
    char err[4096];
    size_t n = 0;
    for (;;) {
        ssize_t r = read(fd[0], err + n, sizeof(err) - 1 - n);
        if (r <= 0)
            break;
        n += (size_t)r;
        if (n >= sizeof(err) - 1) { /* drain */
            char sink[4096];
            while (read(fd[0], sink, sizeof(sink)) > 0) {
            }
            break;
        }
    }
    err[n] = 0;
    close(fd[0]);
    int status = 0;
    waitpid(pid, &status, 0);
    const char* verdict = "clean";
    char sigbuf[32];
    if (strstr(err, "heap-buffer-overflow"))
        verdict = "asan:heap-buffer-overflow";
    else if (strstr(err, "AddressSanitizer"))
        verdict = "asan:other";
    else if (strstr(err, "misaligned address"))
        verdict = "ubsan:misaligned";
    else if (strstr(err, "runtime error"))
        verdict = "ubsan:other";
    else if (WIFSIGNALED(status)) {
        snprintf(sigbuf, sizeof(sigbuf), "signal:%d", WTERMSIG(status));
        verdict = sigbuf;
    } else if (WIFEXITED(status) && WEXITSTATUS(status) != 0) {
        snprintf(sigbuf, sizeof(sigbuf), "exit:%d", WEXITSTATUS(status));
        verdict = sigbuf;
    }
    if (is_fill)
        printf("tight fill %d %u %d %d %zu %zu -> %s\n", kind, type, w, h, size, off, verdict);
    else
        printf("tight bin2 %d %d %zu %zu -> %s\n", w, h, size, off, verdict);
}

int
main(int argc, char** argv)
{
    for (int i = 1; i < argc; ++i)
        if (!strcmp(argv[i], "--no-alloc"))
            g_no_alloc = 1;
    signal(SIGALRM, on_alarm);
    setvbuf(stdout, 0, _IOLBF, 0);
    char line[4096];
    while (fgets(line, sizeof(line), stdin)) {
        char* tok = 0;
        char* op = strtok_r(line, " \n", &tok);
        if (!op)
            continue;
        g_op = op;
        alarm(120);
        if (!strcmp(op, "variant")) {
            char* v = strtok_r(0, " \n", &tok);
#ifdef __AVX2__
            const char* mine = "avx2";
#else
            const char* mine = "plain";
#endif
            if (!v || strcmp(v, mine)) {
                printf("variant-mismatch built=%s\n", mine);
                return 4;
            }
            printf("variant %s\n", mine);
        } else if (!strcmp(op, "new")) {
            char* k = strtok_r(0, " \n", &tok);
            if (!k) {
                printf("bad-op\n");
                continue;
            }
            if (g_cam)
                simcam_close_camera(g_cam);
            g_cam = simcam_make_camera((enum BasicDeviceKind)atoi(k));
            if (!g_cam) {
                printf("new failed\n");
                return 5;
            }
            printf("new | ");
            digest();
            printf("\n");
        } else if (!strcmp(op, "tight")) {
            op_tight(&tok);
        } else if (!g_cam) {
            printf("bad-op\n");
        } else if (!strcmp(op, "set")) {
            op_set(&tok);
        } else if (!strcmp(op, "start")) {
            struct SimulatedCamera* self = containerof(g_cam, struct SimulatedCamera, camera);
            if (self->streamer.is_running || !self->im.frame_data || !self->im.render_data) {
                printf("illformed | ");
            } else {
                enum DeviceStatusCode ec = g_cam->start(g_cam);
                printf(ec == Device_Ok ? "start | " : "start-failed | ");
            }
            digest();
            printf("\n");
        } else if (!strcmp(op, "stop")) {
            g_cam->stop(g_cam);
            printf("stop | ");
            digest();
            printf("\n");
        } else if (!strcmp(op, "obs")) {
            printf("obs | ");
            digest();
            printf("\n");
        } else if (!strcmp(op, "frame")) {
            char* d = strtok_r(0, " \n", &tok);
            op_frame(d ? strtoll(d, 0, 10) : 0);
        } else {
            printf("bad-op\n");
        }
        alarm(0);
    }
    if (g_cam)
        simcam_close_camera(g_cam);
    return 0;
}
