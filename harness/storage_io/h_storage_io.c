// Correspondence + oracle harness for the storage devices at the level of
// system calls (properties C14 and C16).
//
// Real code linked in: raw.c, tiff.cpp, side-by-side-tiff.cpp, trash.c,
// basic.storage.c, basics.driver.c (device construction / destruction), HAL
// storage.c + driver.c, the REAL linux/platform.c (file_create, file_write,
// file_close, file_is_writable), props/storage.c.
//
// `open`, `close`, `pwrite`, `flock`, `mkdir`, `unlink` are defined HERE, so
// every such call of the code under test lands in this file: it is logged with
// canonical descriptor ordinals (d1 = first descriptor the device opened, ...),
// consults the fault script (call index -> full | short k | zero | fail) and is
// then forwarded to the kernel with syscall(2).  Calls made by the harness
// itself (g_active == 0) go straight through, unlogged.
//
// Line protocol (one operation per line, one result line per operation; the
// model driver `acq_storage` prints the same lines):
//   new <raw|tiff|sxs|trash>         fresh device through storage_open, fresh directory
//   faults <i>=F|Z|S<k> ... [from=<i>]   outcome of the i-th faultable call of this case
//   set <p:NAME|f:NAME> <META|->     storage_set; f: = "file://NAME"; relative to the case directory
//   start | stop | close             storage_start / storage_stop / storage_close
//   append <hex> ... [L=..]          storage_append of the packet made of these frames
// Each case (from one `new` to the next) runs in a forked child with a reduced
// stack and a watchdog: a crash or hang is printed as a result (`CRASH`,
// `TIMEOUT`) and the next case still runs.
//
// Property oracles (implementation-only; lines `ORACLE <kind> ...`):
//   unowned-pwrite / unowned-close / unowned-flock : a call names a descriptor
//        this device did not open or has already closed            (C16)
//   descriptor-leak : a descriptor the device opened is still open after close (C16)
//   unreported-write-failure : a pwrite inside an append failed (or three wrote
//        nothing) and the append still left the device Running     (C16)
//   raw-file-differs : the raw file is not the concatenation of the packets
//        appended in this acquisition                               (C14)
//   opened-path-differs : raw_start opened something else than the URI minus an
//        initial "file://"                                          (C14)
#define _GNU_SOURCE
#include <sys/prctl.h>
#include <signal.h>
#include "device/hal/storage.h"
#include "device/hal/device.manager.h"
#include "device/kit/driver.h"
#include "device/kit/storage.h"
#include "device/kit/camera.h"
#include "device/props/storage.h"
#include "identifiers.h"
#include "logger.h"

#include <dirent.h>
#include <errno.h>
#include <fcntl.h>
#include <signal.h>
#include <stdarg.h>
#include <stdio.h>
#include <stdlib.h>
#include <string.h>
#include <sys/file.h>
#include <sys/resource.h>
#include <sys/stat.h>
#include <sys/syscall.h>
#include <sys/wait.h>
#include <time.h>
#include <unistd.h>

// ------------------------------------------------------------------ stubs
// basics.driver.c also constructs cameras; none is opened here.
struct Camera* simcam_make_camera(int kind) { (void)kind; return 0; }
enum DeviceStatusCode simcam_close_camera(struct Camera* c) { (void)c; return Device_Err; }

static struct Driver* g_driver;
struct Driver* device_manager_get_driver(const struct DeviceManager* self, const struct DeviceIdentifier* id)
{
    (void)self; (void)id;
    return g_driver;
}
static void quiet_reporter(int is_error, const char* file, int line, const char* function, const char* msg)
{
    (void)is_error; (void)file; (void)line; (void)function; (void)msg;
}

// ------------------------------------------------------------------ interposer state
enum { O_FULL, O_SHORT, O_ZERO, O_FAIL };
struct outcome { int kind; long k; };
static struct { long idx; struct outcome o; } g_faults[256];
static int g_nfaults;
static long g_persist_from = -1;
static long g_call;     // index of the next faultable call (open, flock, pwrite, close, mkdir)
static int g_active;    // inside a call into the code under test

static struct own { int fd; int ord; int is_open; unsigned long long end; } g_own[1024]; // end: highest byte written so far
static int g_nown;

static char g_ev[1 << 16];
static size_t g_evlen;
static char g_orc[1 << 13];
static size_t g_orclen;
static unsigned long g_noracle;

// per-op observations for the oracles
static int g_op_pwrite_failed;       // a pwrite returned -1 during this op
static int g_op_zero_run;            // three pwrites with identical arguments returned 0
static struct { int fd; const void* buf; size_t n; long off; int cnt; } g_zero;
static char g_first_open[4096];      // first path passed to open during this op
static int g_have_first_open;

// every other case gives the writers file names behind a long (but legal: < PATH_MAX) chain of directories, so that whatever
// formats a path into a fixed buffer (error messages, the side-by-side writer's file names) meets one that does not fit;
// the prefix is removed from the event trace again, which is compared with the model's
static int g_long;
static char g_longpfx[1400];
static void ev(const char* fmt, ...)
{
    va_list ap;
    va_start(ap, fmt);
    if (g_evlen < sizeof(g_ev) - 2048) {
        char tmp[2000];
        vsnprintf(tmp, sizeof tmp, fmt, ap);
        size_t lp = strlen(g_longpfx);
        if (g_long && lp) {
            for (char* q; (q = strstr(tmp, g_longpfx));) memmove(q, q + lp, strlen(q + lp) + 1);
        }
        if (g_evlen) g_ev[g_evlen++] = ' ';
        size_t n = strlen(tmp);
        if (n > 499) n = 499;
        memcpy(g_ev + g_evlen, tmp, n);
        g_evlen += n;
        g_ev[g_evlen] = 0;
    }
    va_end(ap);
}
static void oracle_fail(const char* fmt, ...)
{
    va_list ap;
    va_start(ap, fmt);
    ++g_noracle;
    if (g_orclen < sizeof(g_orc) - 300) {
        g_orclen += (size_t)snprintf(g_orc + g_orclen, 16, "ORACLE ");
        g_orclen += (size_t)vsnprintf(g_orc + g_orclen, 250, fmt, ap);
        g_orc[g_orclen++] = '\n';
        g_orc[g_orclen] = 0;
    }
    va_end(ap);
}

static struct outcome next_outcome(void)
{
    long i = g_call++;
    struct outcome o = { O_FULL, 0 };
    if (g_persist_from >= 0 && i >= g_persist_from) { o.kind = O_FAIL; return o; }
    for (int j = 0; j < g_nfaults; ++j)
        if (g_faults[j].idx == i) return g_faults[j].o;
    return o;
}
static struct own* find_open(int fd)
{
    for (int i = g_nown - 1; i >= 0; --i)
        if (g_own[i].fd == fd && g_own[i].is_open) return &g_own[i];
    return 0;
}
static const char* fdname(int fd, char* buf)
{
    struct own* o = find_open(fd);
    if (o) { sprintf(buf, "d%d", o->ord); return buf; }
    for (int i = g_nown - 1; i >= 0; --i)
        if (g_own[i].fd == fd) { sprintf(buf, "!d%d", g_own[i].ord); return buf; }  // stale
    sprintf(buf, "!%d", fd);                                                       // never owned
    return buf;
}

// ------------------------------------------------------------------ the interposed calls
int open(const char* path, int flags, ...)
{
    mode_t mode = 0;
    if (flags & O_CREAT) {
        va_list ap;
        va_start(ap, flags);
        mode = (mode_t)va_arg(ap, int);
        va_end(ap);
    }
    if (!g_active) return (int)syscall(SYS_openat, AT_FDCWD, path, flags, mode);
    if (!g_have_first_open) {
        snprintf(g_first_open, sizeof(g_first_open), "%s", path);
        g_have_first_open = 1;
    }
    struct outcome o = next_outcome();
    if (o.kind == O_FAIL) {
        ev("open(%s)=fail", path);
        errno = EACCES;
        return -1;
    }
    int fd = (int)syscall(SYS_openat, AT_FDCWD, path, flags, mode);
    if (fd < 0) {
        int e = errno;
        ev("open(%s)=realfail:%d", path, e);
        errno = e;
        return -1;
    }
    if (g_nown < (int)(sizeof(g_own) / sizeof(g_own[0]))) {
        g_own[g_nown].fd = fd;
        g_own[g_nown].ord = g_nown + 1;
        g_own[g_nown].is_open = 1;
        g_own[g_nown].end = 0;
        ++g_nown;
    }
    ev("open(%s)=d%d", path, g_nown);
    return fd;
}
int open64(const char* path, int flags, ...)
{
    mode_t mode = 0;
    if (flags & O_CREAT) {
        va_list ap;
        va_start(ap, flags);
        mode = (mode_t)va_arg(ap, int);
        va_end(ap);
    }
    return open(path, flags, mode);
}

// `big` op: the data is not stored (the file would be gigabytes); what is checked is where each write is aimed
static int g_big;
static unsigned long long g_big_next;
static int g_kind = -1;      // 0 raw 1 tiff 2 sxs 3 trash
// TIFF kinds in a big run: the end of everything written so far, and the number of writes; the writer lays its sections (directory,
// strip, description) out one after the other at 8-aligned offsets and goes back only to patch the 8-byte link of the last directory
static unsigned long long g_big_end;
static unsigned long g_big_writes, g_big_patches;
ssize_t pwrite(int fd, const void* buf, size_t count, off_t off)
{
    if (!g_active) return syscall(SYS_pwrite64, fd, buf, count, off);
    if (g_big && g_kind == 0) {
        if ((unsigned long long)off != g_big_next)
            oracle_fail("raw-write-aimed-at-wrong-offset expected=%llu got=%llu count=%zu", g_big_next, (unsigned long long)off, count);
        g_big_next += count;
        return (ssize_t)count;
    }
    if (g_big) {
        unsigned long long o = (unsigned long long)off;
        struct own* w = find_open(fd);
        if (!w) { oracle_fail("unowned-pwrite %d", fd); errno = EBADF; return -1; }
        if (g_big_end < w->end) g_big_end = w->end;
        ++g_big_writes;
        if (o >= g_big_end) {
            if (o >= g_big_end + 8 || o % 8)
                oracle_fail("tiff-section-not-adjacent end=%llu got=%llu count=%zu", g_big_end, o, count);
            g_big_end = o + count;
        } else if (count > 8 || o + count > g_big_end) {
            oracle_fail("tiff-write-overlaps-earlier-data end=%llu got=%llu count=%zu", g_big_end, o, count);
        } else
            ++g_big_patches;
        g_big_next += count;
        return (ssize_t)count;
    }
    char nm[32];
    struct outcome o = next_outcome();
    if (!find_open(fd)) {
        ev("pwrite(%s,%ld,%zu)=fail", fdname(fd, nm), (long)off, count);
        oracle_fail("unowned-pwrite %s", fdname(fd, nm));
        g_op_pwrite_failed = 1;
        errno = EBADF;
        return -1;
    }
    size_t want = count;
    if (o.kind == O_FAIL) {
        ev("pwrite(%s,%ld,%zu)=fail", fdname(fd, nm), (long)off, count);
        g_op_pwrite_failed = 1;
        // the kind of failure varies with the call index (disk error, disk full, and the "try again" kinds a caller may be tempted to retry)
        static const int kinds[] = { EIO, ENOSPC, EAGAIN, EINTR };
        errno = kinds[(g_call - 1) & 3];
        return -1;
    }
    if (o.kind == O_ZERO || (o.kind == O_SHORT && o.k == 0)) want = 0;
    else if (o.kind == O_SHORT && (size_t)o.k < count) want = (size_t)o.k;
    size_t done = 0;
    while (done < want) {
        long w = syscall(SYS_pwrite64, fd, (const char*)buf + done, want - done, off + (off_t)done);
        if (w <= 0) {
            int e = errno;
            ev("pwrite(%s,%ld,%zu)=realfail:%d", fdname(fd, nm), (long)off, count, e);
            g_op_pwrite_failed = 1;
            errno = e;
            return -1;
        }
        done += (size_t)w;
    }
    if (want == 0 && count > 0) {
        if (g_zero.cnt && g_zero.fd == fd && g_zero.buf == buf && g_zero.n == count && g_zero.off == (long)off)
            ++g_zero.cnt;
        else {
            g_zero.fd = fd; g_zero.buf = buf; g_zero.n = count; g_zero.off = (long)off; g_zero.cnt = 1;
        }
        if (g_zero.cnt >= 3) g_op_zero_run = 1;
    }
    ev("pwrite(%s,%ld,%zu)=%zu", fdname(fd, nm), (long)off, count, want);
    if (want && (unsigned long long)off + want > find_open(fd)->end) find_open(fd)->end = (unsigned long long)off + want;
    return (ssize_t)want;
}
ssize_t pwrite64(int fd, const void* buf, size_t count, off_t off) { return pwrite(fd, buf, count, off); }

int close(int fd)
{
    if (!g_active) return (int)syscall(SYS_close, fd);
    char nm[32];
    struct outcome o = next_outcome();
    struct own* w = find_open(fd);
    if (!w) {
        // The device closes a descriptor it does not own: never performed (it
        // could be the harness's own stdin/stdout), but logged and reported.
        int stale = fdname(fd, nm)[1] == 'd';
        ev("close(%s)=%s", nm, stale ? "fail" : "ok");
        oracle_fail("unowned-close %s", nm);
        if (stale) { errno = EBADF; return -1; }
        return 0;
    }
    fdname(fd, nm);
    syscall(SYS_close, fd);   // the kernel releases the descriptor even when close reports an error
    w->is_open = 0;
    if (o.kind == O_FAIL) {
        ev("close(%s)=fail", nm);
        errno = EIO;
        return -1;
    }
    ev("close(%s)=ok", nm);
    return 0;
}

int flock(int fd, int op)
{
    if (!g_active) return (int)syscall(SYS_flock, fd, op);
    char nm[32];
    struct outcome o = next_outcome();
    if (!find_open(fd)) {
        ev("flock(%s)=fail", fdname(fd, nm));
        oracle_fail("unowned-flock %s", fdname(fd, nm));
        errno = EBADF;
        return -1;
    }
    if (o.kind == O_FAIL) {
        ev("flock(%s)=fail", fdname(fd, nm));
        errno = EWOULDBLOCK;
        return -1;
    }
    int r = (int)syscall(SYS_flock, fd, op);
    if (r < 0) {
        int e = errno;
        ev("flock(%s)=realfail:%d", fdname(fd, nm), e);
        errno = e;
        return -1;
    }
    ev("flock(%s)=ok", fdname(fd, nm));
    return 0;
}

int mkdir(const char* path, mode_t mode)
{
    if (!g_active) return (int)syscall(SYS_mkdir, path, mode);
    struct outcome o = next_outcome();
    if (o.kind == O_FAIL) {
        ev("mkdir(%s)=fail", path);
        errno = EACCES;
        return -1;
    }
    int r = (int)syscall(SYS_mkdir, path, mode);
    if (r < 0) {
        int e = errno;
        ev("mkdir(%s)=realfail:%d", path, e);
        errno = e;
        return -1;
    }
    ev("mkdir(%s)=ok", path);
    return 0;
}

int unlink(const char* path)
{
    if (!g_active) return (int)syscall(SYS_unlink, path);
    ev("unlink(%s)", path);
    return (int)syscall(SYS_unlink, path);
}

// ------------------------------------------------------------------ case state
static struct Storage* g_st;
static int g_closed;
static char g_cur_name[2800];     // path the current URI denotes (URI minus "file://")
static int g_have_name;

// C14 oracle: the acquisition in progress / last finished on the raw device
static int g_acq_clean;           // started on a path that did not exist, every append reported ok
static char g_acq_path[2800];
static unsigned char* g_acq;
static size_t g_acq_len, g_acq_cap;

static const char* stname(enum DeviceState s)
{
    switch (s) {
        case DeviceState_Closed: return "C";
        case DeviceState_AwaitingConfiguration: return "W";
        case DeviceState_Armed: return "A";
        case DeviceState_Running: return "R";
        default: return "?";
    }
}

static unsigned fnv(const unsigned char* p, size_t n)
{
    unsigned h = 2166136261u;
    for (size_t i = 0; i < n; ++i) { h ^= p[i]; h *= 16777619u; }
    return h;
}

static unsigned char* slurp(const char* path, size_t* n)
{
    FILE* f = fopen(path, "rb");
    if (!f) return 0;
    size_t cap = 1 << 12, len = 0;
    unsigned char* b = malloc(cap);
    for (;;) {
        if (len == cap) b = realloc(b, cap *= 2);
        size_t r = fread(b + len, 1, cap - len, f);
        if (!r) break;
        len += r;
    }
    fclose(f);
    *n = len;
    return b;
}

static void file_digest(char* out, size_t cap)
{
    out[0] = 0;
    if (g_kind != 0) return;
    if (!g_have_name) { snprintf(out, cap, " | nofile"); return; }
    size_t n = 0;
    unsigned char* b = slurp(g_cur_name, &n);
    if (!b) { snprintf(out, cap, " | nofile"); return; }
    snprintf(out, cap, " | file=%zu:%08x", n, fnv(b, n));
    free(b);
}

static void check_raw_file(void)
{
    if (g_kind != 0 || !g_acq_clean) return;
    size_t n = 0;
    unsigned char* b = slurp(g_acq_path, &n);
    if (!b) { oracle_fail("raw-file-differs missing-file expected=%zu", g_acq_len); return; }
    size_t i = 0;
    while (i < n && i < g_acq_len && b[i] == g_acq[i]) ++i;
    if (n != g_acq_len || i != n)
        oracle_fail("raw-file-differs expected=%zu actual=%zu first-difference-at=%zu", g_acq_len, n, i);
    free(b);
}

static void finish_op(const char* op, const char* rc, enum DeviceState st)
{
    char dig[128];
    file_digest(dig, sizeof dig);
    printf("%s %s %s | %s%s\n", op, rc, stname(st), g_ev, dig);
    if (g_orclen) fputs(g_orc, stdout);
    g_evlen = 0; g_ev[0] = 0;
    g_orclen = 0; g_orc[0] = 0;
    fflush(stdout);
}
static void begin_op(void)
{
    g_op_pwrite_failed = 0;
    g_op_zero_run = 0;
    g_zero.cnt = 0;
    g_have_first_open = 0;
}

static int hexval(int c)
{
    if (c >= '0' && c <= '9') return c - '0';
    if (c >= 'a' && c <= 'f') return c - 'a' + 10;
    return -1;
}

static void run_case(char** lines, int nlines)
{
    for (int li = 0; li < nlines; ++li) {
        char* line = lines[li];
        char* save = 0;
        char* op = strtok_r(line, " \t\r\n", &save);
        if (!op) continue;
        begin_op();
        if (!strcmp(op, "new")) {
            char* k = strtok_r(0, " \t\r\n", &save);
            static const char* names[] = { "raw", "tiff", "sxs", "trash" };
            static const int ids[] = { BasicDevice_Storage_Raw, BasicDevice_Storage_Tiff,
                                       BasicDevice_Storage_SideBySideTiffJson, BasicDevice_Storage_Trash };
            g_kind = -1;
            for (int i = 0; i < 4; ++i)
                if (k && !strcmp(k, names[i])) g_kind = i;
            if (g_kind < 0) { printf("bad-op\n"); continue; }
            struct DeviceIdentifier id;
            memset(&id, 0, sizeof id);
            id.kind = DeviceKind_Storage;
            id.device_id = (uint8_t)ids[g_kind];
            g_active = 1;
            g_st = storage_open(0, &id);
            g_active = 0;
            g_closed = 0;
            if (!g_st) { printf("new failed\n"); g_kind = -1; continue; }
            finish_op("new", "ok", storage_get_state(g_st));
            continue;
        }
        if (!strcmp(op, "faults")) {
            char* t;
            while ((t = strtok_r(0, " \t\r\n", &save))) {
                if (!strncmp(t, "from=", 5)) { g_persist_from = atol(t + 5); continue; }
                char* eq = strchr(t, '=');
                if (!eq || g_nfaults >= 256) continue;
                struct outcome o = { O_FULL, 0 };
                if (eq[1] == 'F') o.kind = O_FAIL;
                else if (eq[1] == 'Z') o.kind = O_ZERO;
                else if (eq[1] == 'S') { o.kind = O_SHORT; o.k = atol(eq + 2); }
                g_faults[g_nfaults].idx = atol(t);
                g_faults[g_nfaults].o = o;
                ++g_nfaults;
            }
            printf("faults ok\n");
            continue;
        }
        if (g_kind < 0 || !g_st || g_closed) { printf("illformed\n"); continue; }
        if (!strcmp(op, "set")) {
            char* u = strtok_r(0, " \t\r\n", &save);
            char* m = strtok_r(0, " \t\r\n", &save);
            if (!u || !m || (u[0] != 'p' && u[0] != 'f') || u[1] != ':') { printf("bad-op\n"); continue; }
            // `set` while Running is outside the life cycles C14/C16 quantify over (skipped by the model too);
            // SIO_ALLOW_SET_RUNNING=1 lets a probe run it on the real code anyway.
            if (storage_get_state(g_st) == DeviceState_Running && !getenv("SIO_ALLOW_SET_RUNNING")) {
                printf("illformed\n");
                continue;
            }
            char uri[2800];
            snprintf(uri, sizeof uri, "%s%s%s", u[0] == 'f' ? "file://" : "", g_long ? g_longpfx : "", u + 2);
            struct StorageProperties props;
            memset(&props, 0, sizeof props);
            props.uri.str = uri;
            props.uri.nbytes = strlen(uri) + 1;
            props.uri.is_ref = 1;
            if (strcmp(m, "-")) {
                props.external_metadata_json.str = m;
                props.external_metadata_json.nbytes = strlen(m) + 1;
                props.external_metadata_json.is_ref = 1;
            }
            props.pixel_scale_um.x = 1;
            props.pixel_scale_um.y = 1;
            g_active = 1;
            enum DeviceStatusCode rc = storage_set(g_st, &props);
            g_active = 0;
            if (rc == Device_Ok) {
                snprintf(g_cur_name, sizeof g_cur_name, "%s%s", g_long ? g_longpfx : "", u + 2);
                g_have_name = 1;
            }
            finish_op("set", rc == Device_Ok ? "ok" : "err", storage_get_state(g_st));
            continue;
        }
        if (!strcmp(op, "start")) {
            struct stat sb;
            int existed = g_have_name && stat(g_cur_name, &sb) == 0;
            g_active = 1;
            enum DeviceStatusCode rc = storage_start(g_st);
            g_active = 0;
            if (g_kind == 0) {
                g_acq_clean = 0;
                if (rc == Device_Ok) {
                    if (!g_have_first_open || strcmp(g_first_open, g_cur_name))
                        oracle_fail("opened-path-differs expected=%s opened=%s", g_cur_name,
                                    g_have_first_open ? g_first_open : "(nothing)");
                    g_acq_clean = !existed;
                    g_acq_len = 0;
                    snprintf(g_acq_path, sizeof g_acq_path, "%s", g_cur_name);
                }
                check_raw_file();
            }
            finish_op("start", rc == Device_Ok ? "ok" : "err", storage_get_state(g_st));
            continue;
        }
        if (!strcmp(op, "append")) {
            size_t cap = 1 << 12, len = 0;
            unsigned char* pkt = 0;
            if (posix_memalign((void**)&pkt, 64, cap)) { printf("bad-op\n"); continue; }
            char* t;
            while ((t = strtok_r(0, " \t\r\n", &save))) {
                if (t[0] == 'L' && t[1] == '=') continue;   // description lengths: for the model only
                if (t[0] == '-' && !t[1]) continue;         // empty packet
                size_t n = strlen(t) / 2;
                if (len + n > cap) {
                    while (len + n > cap) cap *= 2;
                    unsigned char* q = 0;
                    if (posix_memalign((void**)&q, 64, cap)) abort();
                    memcpy(q, pkt, len);
                    free(pkt);
                    pkt = q;
                }
                for (size_t i = 0; i < n; ++i) pkt[len + i] = (unsigned char)(hexval(t[2 * i]) * 16 + hexval(t[2 * i + 1]));
                len += n;
            }
            int was_running = storage_get_state(g_st) == DeviceState_Running;
            g_active = 1;
            enum DeviceStatusCode rc =
              storage_append(g_st, (struct VideoFrame*)pkt, (struct VideoFrame*)(pkt + len));
            g_active = 0;
            enum DeviceState st = storage_get_state(g_st);
            if ((g_op_pwrite_failed || g_op_zero_run) && (rc == Device_Ok || st == DeviceState_Running))
                oracle_fail("unreported-write-failure rc=%s state=%s", rc == Device_Ok ? "ok" : "err", stname(st));
            if (g_kind == 0 && was_running) {
                if (rc == Device_Ok && len) {
                    if (g_acq_len + len > g_acq_cap) {
                        g_acq_cap = (g_acq_len + len) * 2 + 64;
                        g_acq = realloc(g_acq, g_acq_cap);
                    }
                    memcpy(g_acq + g_acq_len, pkt, len);
                    g_acq_len += len;
                } else if (rc != Device_Ok)
                    g_acq_clean = 0;
                check_raw_file();
            }
            free(pkt);
            finish_op("append", rc == Device_Ok ? "ok" : "err", st);
            continue;
        }
        if (!strcmp(op, "big")) {
            // big <bytes of one frame> <count>: `count` appends of one large frame each; every byte appended so far must precede the next write
            char* a = strtok_r(0, " \t\r\n", &save);
            char* b = strtok_r(0, " \t\r\n", &save);
            size_t fb = a ? (size_t)strtoull(a, 0, 10) : 0;
            long cnt = b ? atol(b) : 0;
            if (fb < sizeof(struct VideoFrame) + 8 || fb % 8 || cnt < 1 || storage_get_state(g_st) != DeviceState_Running) { printf("bad-op\n"); continue; }
            unsigned char* pkt = calloc(1, fb);   // untouched pages cost nothing; nothing reads them
            if (!pkt) { printf("big skipped-no-memory\n"); continue; }
            struct VideoFrame* f = (struct VideoFrame*)pkt;
            f->bytes_of_frame = fb;
            f->shape.dims.channels = 1; f->shape.dims.width = (uint32_t)((fb - sizeof(struct VideoFrame)) / 8); f->shape.dims.height = 8; f->shape.dims.planes = 1;
            f->shape.strides.channels = 1; f->shape.strides.width = 1; f->shape.strides.height = f->shape.dims.width; f->shape.strides.planes = (int64_t)f->shape.dims.width * 8;
            f->shape.type = SampleType_u8;
            g_big = 1;
            if (g_acq_clean) { g_big_next = g_acq_len; g_big_end = 0; g_big_writes = g_big_patches = 0; }   // first `big` of this acquisition: continue after what was appended normally
            g_acq_clean = 0;   // the file's bytes are not there to compare
            enum DeviceStatusCode rc = Device_Ok;
            for (long k = 0; k < cnt && rc == Device_Ok; ++k) {
                f->frame_id = (uint64_t)k;
                g_active = 1;
                rc = storage_append(g_st, f, (struct VideoFrame*)(pkt + fb));
                g_active = 0;
            }
            g_big = 0;
            free(pkt);
            printf("big %s total=%llu end=%llu writes=%lu\n", rc == Device_Ok ? "ok" : "err", g_big_next, g_big_end, g_big_writes);
            if (g_orclen) fputs(g_orc, stdout);
            g_orclen = 0; g_orc[0] = 0;
            continue;
        }
        if (!strcmp(op, "stop")) {
            g_active = 1;
            enum DeviceStatusCode rc = storage_stop(g_st);
            g_active = 0;
            check_raw_file();
            finish_op("stop", rc == Device_Ok ? "ok" : "err", storage_get_state(g_st));
            continue;
        }
        if (!strcmp(op, "close")) {
            g_active = 1;
            storage_close(g_st);
            g_active = 0;
            g_closed = 1;
            g_st = 0;
            check_raw_file();
            for (int i = 0; i < g_nown; ++i)
                if (g_own[i].is_open) oracle_fail("descriptor-leak d%d", g_own[i].ord);
            finish_op("close", "ok", DeviceState_Closed);
            continue;
        }
        printf("bad-op\n");
    }
    fflush(stdout);
}

// ------------------------------------------------------------------ main: one child per case
static void rm_rf(const char* dir)
{
    DIR* d = opendir(dir);
    if (d) {
        struct dirent* e;
        while ((e = readdir(d))) {
            if (!strcmp(e->d_name, ".") || !strcmp(e->d_name, "..")) continue;
            char p[2048];
            snprintf(p, sizeof p, "%s/%s", dir, e->d_name);
            struct stat sb;
            if (lstat(p, &sb) == 0 && S_ISDIR(sb.st_mode)) rm_rf(p);
            else unlink(p);
        }
        closedir(d);
    }
    rmdir(dir);
}

int main(int argc, char** argv)
{
    if (argc > 1 && !strcmp(argv[1], "--layout")) {
        printf("sizeof=%zu bytes_of_frame=%zu width=%zu height=%zu type=%zu frame_id=%zu hardware_frame_id=%zu "
               "ts_hardware=%zu ts_acq_thread=%zu\n",
               sizeof(struct VideoFrame), offsetof(struct VideoFrame, bytes_of_frame),
               offsetof(struct VideoFrame, shape.dims.width), offsetof(struct VideoFrame, shape.dims.height),
               offsetof(struct VideoFrame, shape.type), offsetof(struct VideoFrame, frame_id),
               offsetof(struct VideoFrame, hardware_frame_id), offsetof(struct VideoFrame, timestamps.hardware),
               offsetof(struct VideoFrame, timestamps.acq_thread));
        return 0;
    }
    const char* root = argc > 1 ? argv[1] : "/verif/.build/tmp-storage";
    long case_timeout_ms = argc > 2 ? atol(argv[2]) : 10000;
    char top[1024];
    mkdir(root, 0777);
    snprintf(top, sizeof top, "%s/%ld", root, (long)getpid());
    rm_rf(top);
    if (mkdir(top, 0777) && errno != EEXIST) { perror("mkdir"); return 2; }

    // read the whole script
    size_t cap = 1 << 16, len = 0;
    char* text = malloc(cap);
    for (;;) {
        if (len + 1 >= cap) text = realloc(text, cap *= 2);
        size_t r = fread(text + len, 1, cap - len - 1, stdin);
        if (!r) break;
        len += r;
    }
    text[len] = 0;
    size_t nl = 0, lcap = 1024;
    char** lines = malloc(lcap * sizeof *lines);
    for (char* p = text; *p;) {
        char* e = strchr(p, '\n');
        if (e) *e = 0;
        if (nl == lcap) lines = realloc(lines, (lcap *= 2) * sizeof *lines);
        lines[nl++] = p;
        if (!e) break;
        p = e + 1;
    }
    setvbuf(stdout, 0, _IOLBF, 0);
    logger_set_reporter(quiet_reporter);

    size_t i = 0;
    long ncase = 0;
    while (i < nl) {
        size_t j = i + 1;
        while (j < nl && strncmp(lines[j], "new ", 4)) ++j;
        // lines[i..j) is one case (the first one may lack a `new`)
        char dir[1100];
        snprintf(dir, sizeof dir, "%s/c%ld", top, ncase++);
        mkdir(dir, 0777);
        fflush(stdout);
        pid_t pid = fork();
        if (pid == 0) {
            prctl(PR_SET_PDEATHSIG, SIGKILL);
            struct rlimit rl = { 1 << 20, 1 << 20 };   // 1 MiB of stack: run-away recursion fails fast
            setrlimit(RLIMIT_STACK, &rl);
            if (chdir(dir)) _exit(3);
            g_long = (int)(ncase % 2 == 0);   // (ncase has been incremented: cases 1, 3, 5, … of the script)
            if (g_long) {
                g_longpfx[0] = 0;
                for (int k = 0; k < 5; ++k) {
                    size_t l = strlen(g_longpfx);
                    memset(g_longpfx + l, 'L', 236);
                    g_longpfx[l + 236] = 0;
                    if (syscall(SYS_mkdir, g_longpfx, 0777) && errno != EEXIST) _exit(5);
                    strcat(g_longpfx, "/");
                }
            }
            g_driver = acquire_driver_init_v0(quiet_reporter);
            if (!g_driver) _exit(4);
            run_case(lines + i, (int)(j - i));
            fflush(stdout);
            _exit(0);
        }
        int status = 0;
        long waited_us = 0;
        for (;;) {
            pid_t r = waitpid(pid, &status, WNOHANG);
            if (r == pid) break;
            if (waited_us / 1000 >= case_timeout_ms) {
                kill(pid, SIGKILL);
                waitpid(pid, &status, 0);
                printf("TIMEOUT after %ld ms\n", case_timeout_ms);
                status = 0;
                break;
            }
            struct timespec ts = { 0, 250000 };
            nanosleep(&ts, 0);
            waited_us += 250;
        }
        if (WIFSIGNALED(status)) printf("CRASH signal=%d\n", WTERMSIG(status));
        else if (WIFEXITED(status) && WEXITSTATUS(status) != 0) printf("CRASH exit=%d\n", WEXITSTATUS(status));
        fflush(stdout);
        rm_rf(dir);
        i = j;
    }
    rm_rf(top);
    return 0;
}
