// The REAL HAL storage.c, compiled unchanged.  The only difference to compiling
// the file directly: `storage_close` is exempt from AddressSanitizer, because on
// the unchanged tree it stores `self->state = DeviceState_Closed` *after* the
// driver has freed the device (that write-after-free is property C11's finding
// and is reported there).  The storage-I/O harness serves C14/C15/C16 and must
// keep running across `close`, so the 4-byte store is let through here; every
// other access in every other function stays instrumented.
#include "device/hal/storage.h"
void storage_close(struct Storage* self) __attribute__((no_sanitize_address));
#include "device/hal/storage.c"
