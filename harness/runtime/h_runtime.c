// Whole-runtime harness: the REAL acquire.c (small ring), source.c, sink.c, filter.c, channel.c, HAL,
// device manager and props, on the deterministic scheduler (detsched), against the mock driver.
// Properties C04, C05(runtime), C06, C07, C08, C09, C10.
//
// stdin (one scenario; each `run` line executes it once in a forked child):
//   ring <bytes>
//   limit <steps>         hang <rounds>
//   fault cam <dev> <call> [p]   fault sto <dev> <call> [p]   camempty <n>   camstartfail <dev> <count>
//   prog <op> ; <op> ; ...          client program (main thread, tid 0)
//   run random <seed> | run pct <seed> <depth> | run explicit <t,t,...> [fair|lowest|sticky]
// client ops: cfg <stream> key=value... | configure | start | stop | abort | trigger <s> | state |
//             map <s> | unmap <s> all|<nframes> | waitidle | sleep <n> | shutdown | expect stop|abort
// stdout: API / DRV / MON lines, ORACLE lines (implementation-only property oracles), END <result>.
#define _GNU_SOURCE
#include <sys/prctl.h>
#include <signal.h>
#include "acquire_small_ring.h" // the real acquire.c
#include "detsched.h"
#include "mockdrv.h"
#include "device/hal/device.manager.h"

#include <stdarg.h>
#include <sys/wait.h>
#include <unistd.h>

static size_t g_ring = 1 << 12;
size_t verif_ring_capacity(void) { return g_ring; }

// ------------------------------------------------------------------------------- scenario
#define MAXOPS 128
static char g_prog[MAXOPS][96];
static int g_nprog;
static size_t g_limit = 200000;
static int g_hang_rounds = 6;
static char g_faults[16][64];
static int g_nfaults;

// ------------------------------------------------------------------------------- records
struct rec
{
    int sto_dev; unsigned sto_run;
    uint64_t frame_id, hw_id; uint32_t w, h; int type; size_t bytes_of_frame;
    int payload_ok;       // pixel bytes == mock_pixel(cam dev, cam run, hw_id, i)  (non-averaged)
    int partial;          // averaged frame of a window cut short: it holds fewer inputs than the camera had delivered for it
    float f32[8]; int nf32;
    uint64_t sumcheck;
};
static struct rec g_rec[1 << 14];
static int g_nrec;

// which camera device / run feeds a storage device in the current acquisition (set at start)
static int g_cam_of_sto[MOCK_NDEV];
static unsigned g_camrun_of_sto[MOCK_NDEV];
static int g_avg_of_sto[MOCK_NDEV];

void mock_record_frame(int sto_dev, unsigned sto_run, const struct VideoFrame* f, size_t image_bytes)
{
    if (g_nrec >= (int)countof(g_rec)) return;
    struct rec* r = &g_rec[g_nrec++];
    memset(r, 0, sizeof(*r));
    r->sto_dev = sto_dev; r->sto_run = sto_run;
    r->frame_id = f->frame_id; r->hw_id = f->hardware_frame_id;
    r->w = f->shape.dims.width; r->h = f->shape.dims.height; r->type = (int)f->shape.type;
    r->bytes_of_frame = f->bytes_of_frame;
    int cam = g_cam_of_sto[sto_dev];
    if (f->shape.type == SampleType_f32 && g_avg_of_sto[sto_dev] > 1) {
        size_t n = image_bytes / 4;
        const float* x = (const float*)f->data;
        r->nf32 = (int)(n < 8 ? n : 8);
        for (int i = 0; i < r->nf32; ++i) r->f32[i] = x[i];
        // exact check of every pixel against the mean of the window's inputs
        int k = g_avg_of_sto[sto_dev];
        // input type and per-pixel size are those of the camera's frames
        extern int g_cam_type[MOCK_NDEV];
        int t = g_cam_type[cam];
        size_t bpp = bytes_of_type((enum SampleType)t);
        // a complete window is the float mean of its k inputs. A window cut short (abort, a device failure: frames the camera
        // delivered last may have been refused by the queue) is the mean or the plain sum of its first `cnt` inputs, 1 <= cnt < k;
        // check_acquisition() allows such a record only as the last one of a run that did not end normally
        int avail = 0;
        for (int j = 0; j < k; ++j)
            if (f->frame_id + (uint64_t)j < mock_dev(cam)->delivered) ++avail;
        int ok = 0, partial = 0;
        for (int cnt = avail; cnt >= 1 && !ok; --cnt) {
            int good = 1;
            for (size_t i = 0; i < n && good; ++i) {
                float acc = 0.0f;
                for (int j = 0; j < cnt; ++j) {
                    uint64_t fr = f->frame_id + (uint64_t)j;
                    unsigned char b0 = mock_pixel(cam, g_camrun_of_sto[sto_dev], fr, i * bpp);
                    unsigned char b1 = bpp > 1 ? mock_pixel(cam, g_camrun_of_sto[sto_dev], fr, i * bpp + 1) : 0;
                    double v;
                    switch (t) {
                        case SampleType_u8: v = b0; break;
                        case SampleType_i8: v = (int8_t)b0; break;
                        case SampleType_i16: v = (int16_t)(b0 | (b1 << 8)); break;
                        default: v = (uint16_t)(b0 | (b1 << 8)); break;
                    }
                    acc += (float)v;
                }
                float m1 = acc * (1.0f / (float)cnt), m2 = acc / (float)cnt;
                if (x[i] != m1 && x[i] != m2 && !(cnt < k && x[i] == acc)) good = 0;
            }
            if (good) { ok = 1; partial = cnt < avail; }
        }
        r->partial = partial;
        r->payload_ok = ok;
    } else {
        int ok = 1;
        for (size_t i = 0; i < image_bytes; ++i)
            if (f->data[i] != mock_pixel(cam, g_camrun_of_sto[sto_dev], f->hardware_frame_id, i)) { ok = 0; break; }
        r->payload_ok = ok;
    }
}

void mock_unrecord_frames(int sto_dev, int n)
{
    while (n > 0 && g_nrec > 0 && g_rec[g_nrec - 1].sto_dev == sto_dev) { --g_nrec; --n; }
}

int g_cam_type[MOCK_NDEV];

// ------------------------------------------------------------------------------- client
static struct AcquireRuntime* g_rt;
static struct AcquireProperties g_props;
static int g_cfg_cam[2] = { -1, -1 }, g_cfg_sto[2] = { -1, -1 };
static uint64_t g_cfg_n[2];
static uint64_t g_run_n[2];      // max_frame_count in force for the acquisition in progress (a configure between its end and stop does not change it)
static int g_cfg_avg[2];
static unsigned long g_oracle_fails;
static int g_acq_open; // an acquisition was started and neither stop nor abort has returned yet
// monitor bookkeeping (C06)
static struct VideoFrame* g_mon_beg[2];
static struct VideoFrame* g_mon_end[2];
static int64_t g_mon_last_id[2] = { -1, -1 };
static unsigned g_mon_last_run[2];
static int g_mon_seen_in_acq[2];
static int g_nfinished;          // acquisitions that stop/abort has returned from
static int g_mon_late[2];        // the monitor reader was registered (first acquire_map_read) after an earlier acquisition had finished,
                                 // and no stop/abort has returned since

static void reporter(int is_error, const char* file, int line, const char* function, const char* msg)
{
    (void)is_error; (void)file; (void)line; (void)function; (void)msg;
}

// the client called acquire_configure while an acquisition was running (a known finding: the storage is re-armed behind the
// sink's back and its driver is never stopped); every oracle message of such a program carries this cause, so that the listed
// consequences are told apart from anything else that goes wrong there
static int g_cfg_while_running;
static int g_in_abort;        // the client is inside acquire_abort (a hang there is never the stalled-monitor finding)

static void oracle(const char* fmt, ...)
{
    char buf[384];
    va_list ap;
    va_start(ap, fmt);
    vsnprintf(buf, sizeof buf - 40, fmt, ap);
    va_end(ap);
    if (g_cfg_while_running && !strstr(buf, " cause=")) strcat(buf, " cause=configure-while-running");
    printf("ORACLE %s\n", buf);
    ++g_oracle_fails;
}

static const char* kv(const char* op, const char* key, char* out, size_t n)
{
    char pat[32];
    snprintf(pat, sizeof pat, " %s=", key);
    const char* p = strstr(op, pat);
    if (!p) return 0;
    p += strlen(pat);
    size_t i = 0;
    while (p[i] && p[i] != ' ' && i + 1 < n) { out[i] = p[i]; ++i; }
    out[i] = 0;
    return out;
}

static void select_dev(enum DeviceKind kind, int dev, struct DeviceIdentifier* id)
{
    memset(id, 0, sizeof(*id));
    if (dev < 0) { id->kind = DeviceKind_None; return; }
    const struct DeviceManager* dm = acquire_device_manager(g_rt);
    static const char* names[] = { "mockcam0", "mockcam1", "mockstore0", "mockstore1", "mockcam2", "mockstore2" };
    if (device_manager_select(dm, kind, names[dev], strlen(names[dev]), id) != Device_Ok)
        printf("API select %s -> err\n", names[dev]);
}

static struct runtime* rt(void) { return containerof(g_rt, struct runtime, handle); }

// devices that belong to a stream the client had configured when acquire_start was called, and every device's start count then
static unsigned g_starts_at_start[MOCK_NDEV];
static int g_dev_in_use[MOCK_NDEV];
static int g_applied_cam[2] = { -1, -1 }, g_applied_sto[2] = { -1, -1 }; // what the last acquire_configure was given
static int g_new_cam[2] = { -1, -1 }, g_new_sto[2] = { -1, -1 }, g_new_avg[2], g_new_type[2]; // prepared by `cfg`, applied by `configure`
static uint64_t g_new_n[2];
static int g_have_start_snapshot;

// C07 / C08: an acquisition starts the devices of the streams that are configured *now*, nothing left over from an earlier
// configuration (a stream that the last acquire_configure switched off stays off)
static void check_no_leftover_stream(const char* how)
{
    if (!g_have_start_snapshot) return;
    for (int d = 0; d < MOCK_NDEV; ++d)
        if (!g_dev_in_use[d] && mock_dev(d)->starts != g_starts_at_start[d])
            oracle("leftover-device-%d-started-for-a-stream-that-is-switched-off (%s)", d, how);
    g_have_start_snapshot = 0;
}

// C04 / C07 / C09 / C10 oracle at the end of an acquisition
static void check_acquisition(const char* how)
{
    check_no_leftover_stream(how);
    for (int s = 0; s < 2; ++s) {
        int cam = g_cfg_cam[s], sto = g_cfg_sto[s];
        if (cam < 0 || sto < 0) continue;
        if (!((rt()->valid_video_streams >> s) & 1)) continue;
        const struct mock_dev_state* cd = mock_dev(cam);
        const struct mock_dev_state* sd = mock_dev(sto);
        unsigned long delivered = cd->delivered;
        int k = g_cfg_avg[s] > 1 ? g_cfg_avg[s] : 1;
        // averaging is defined for integer samples (C10): with a float camera the filter gives up at its first frame, and what is
        // owed is that the acquisition winds down (workers finished, devices stopped), not its contents
        int unaveragable = k > 1 && g_cam_type[cam] >= (int)SampleType_f32 && g_cam_type[cam] != (int)SampleType_u10 &&
                           g_cam_type[cam] != (int)SampleType_u12 && g_cam_type[cam] != (int)SampleType_u14;
        // records of this storage run
        int n = 0; int bad_order = 0, bad_payload = 0, bad_shape = 0, npartial = 0, last_partial_at = -1;
        uint64_t expect_id = 0;
        for (int i = 0; i < g_nrec; ++i) {
            struct rec* r = &g_rec[i];
            if (r->sto_dev != sto || r->sto_run != sd->run) continue;
            if (r->frame_id != expect_id) bad_order++;
            if (k == 1 && r->hw_id != r->frame_id) bad_order++;
            if (!r->payload_ok) bad_payload++;
            if (r->partial) { ++npartial; last_partial_at = n; }
            if (k > 1 && r->type != SampleType_f32) bad_shape++;
            expect_id += (uint64_t)k;
            ++n;
        }
        unsigned long full = delivered / (unsigned long)k, want_min = full, want_max = full + ((delivered % k) ? 1 : 0);
        if (bad_order && !unaveragable) oracle("stored-frames-out-of-order-or-gap stream=%d how=%s n=%d", s, how, n);
        if (bad_payload && !unaveragable) oracle("stored-frame-payload-differs stream=%d how=%s bad=%d", s, how, bad_payload);
        if (bad_shape) oracle("stored-frame-type-not-f32 stream=%d", s);
        // a window cut short: one at most, the last record, and never in a run that ended normally
        if (npartial > 1 || (npartial == 1 && (last_partial_at != n - 1 || (!strcmp(how, "stop") && !sd->failed && !cd->failed))))
            if (!unaveragable) oracle("stored-window-cut-short stream=%d how=%s n=%d partial=%d at=%d", s, how, n, npartial, last_partial_at);
        if (!strcmp(how, "stop") && !sd->failed && !cd->failed && !unaveragable) {
            if (delivered != g_run_n[s]) oracle("camera-delivered-%lu-of-%llu stream=%d", delivered, (unsigned long long)g_run_n[s], s);
            if ((unsigned long)n < want_min || (unsigned long)n > want_max)
                oracle("stored-%d-frames-expected-%lu..%lu delivered=%lu k=%d stream=%d how=stop", n, want_min, want_max, delivered, k, s);
        } else {
            if ((unsigned long)n > want_max) oracle("stored-more-than-delivered stream=%d n=%d delivered=%lu", s, n, delivered);
        }
        if (cd->running) oracle("camera-still-running-after-%s stream=%d", how, s);
        if (sd->running) oracle("storage-still-running-after-%s stream=%d", how, s);
        if (sd->append_after_failure) oracle("append-after-failed-append stream=%d", s);
        if (cd->frame_after_failure) oracle("get_frame-after-failed-get_frame stream=%d", s);
        printf("ACQ stream=%d how=%s delivered=%lu stored=%d k=%d\n", s, how, delivered, n, k);
    }
    enum DeviceState st = acquire_get_state(g_rt);
    if (st != DeviceState_Armed) oracle("state-after-%s-is-%s", how, device_state_as_string(st));
    for (int s = 0; s < 2; ++s) g_mon_seen_in_acq[s] = 0;
}

static void check_devices(const char* when)
{
    for (int d = 0; d < MOCK_NDEV; ++d) {
        const struct mock_dev_state* m = mock_dev(d);
        if (m->calls_after_close) oracle("device-%d-used-after-close n=%u (%s)", d, m->calls_after_close, when);
        if (m->double_close) oracle("device-%d-closed-twice (%s)", d, when);
        if (m->double_open) oracle("device-%d-opened-twice-without-close (%s)", d, when);
        if (m->closed_while_running) oracle("device-%d-closed-while-running (%s)", d, when);
        if (m->start_while_running) oracle("%s-device-%d-started-while-running (%s)", d == 2 || d == 3 || d == 5 ? "storage" : "camera", d, when);
        if (m->start_unconfigured) oracle("storage-device-%d-started-while-awaiting-configuration n=%u (%s)", d, m->start_unconfigured, when);
        if (m->stop_without_start) oracle("device-%d-stopped-without-start n=%u (%s)", d, m->stop_without_start, when);
        if (m->frame_outside_running) oracle("device-%d-get_frame-outside-running (%s)", d, when);
        if (m->append_outside_running) oracle("device-%d-append-outside-running (%s)", d, when);
        if (!strcmp(when, "shutdown") && m->opens != m->closes) oracle("device-%d-opened-%u-closed-%u", d, m->opens, m->closes);
    }
}

// C02 at pipeline level: the bytes of a region handed to the client stay as they are until the client unmaps it
// (or acquire_stop / acquire_abort releases it on the client's behalf: g_mon_epoch)
static uint64_t g_mon_sum[2];
static unsigned g_mon_epoch, g_mon_map_epoch[2];
static uint64_t region_sum(const void* beg, const void* end)
{
    uint64_t h = 1469598103934665603ull;
    for (const uint8_t* p = (const uint8_t*)beg; p < (const uint8_t*)end; ++p) h = (h ^ *p) * 1099511628211ull;
    return h;
}
static void check_region_unchanged(int s, const char* when)
{
    if (g_mon_beg[s] && g_mon_map_epoch[s] == g_mon_epoch && region_sum(g_mon_beg[s], g_mon_end[s]) != g_mon_sum[s])
        oracle("monitor-region-changed-while-mapped stream=%d (%s)", s, when);
}

static int g_mon_ever[2];   // the client has mapped this stream before (in this runtime's life)
static void do_map(int s)
{
    struct VideoFrame *beg = 0, *end = 0;
    int was_unregistered = rt()->video[s].monitor.reader.id == 0;
    enum AcquireStatusCode rc = acquire_map_read(g_rt, (uint32_t)s, &beg, &end);
    // (a reader that registers for the first time after an acquisition has finished is the known C06 finding; a client that had been
    // monitoring this stream before and finds its reader forgotten is not)
    if (was_unregistered && rt()->video[s].monitor.reader.id != 0) g_mon_late[s] = g_nfinished >= 1 && !g_mon_ever[s];
    printf("API map %d -> %s", s, rc == AcquireStatus_Ok ? "ok" : "err");
    if (rc != AcquireStatus_Ok) { printf("\n"); if (!g_mon_beg[s]) oracle("map-read-failed stream=%d", s); check_region_unchanged(s, "refused map"); return; }
    g_mon_beg[s] = beg; g_mon_end[s] = end;
    g_mon_ever[s] = 1;
    g_mon_sum[s] = region_sum(beg, end); g_mon_map_epoch[s] = g_mon_epoch;
    int cam = g_cfg_cam[s];
    printf(" bytes=%zu frames=", (size_t)((uint8_t*)end - (uint8_t*)beg));
    const uint8_t* cur = (const uint8_t*)beg;
    int first = 1;
    if (((uintptr_t)cur) % 8) oracle("monitor-region-misaligned stream=%d", s);
    while (cur < (const uint8_t*)end) {
        const struct VideoFrame* f = (const struct VideoFrame*)cur;
        size_t img = bytes_of_image(&f->shape);
        size_t want = 8 * ((sizeof(struct VideoFrame) + img + 7) / 8);
        if (f->bytes_of_frame != want || cur + f->bytes_of_frame > (const uint8_t*)end) {
            oracle("monitor-region-not-whole-frames stream=%d", s); break;
        }
        printf("%s%llu", first ? "" : ",", (unsigned long long)f->frame_id);
        first = 0;
        cur += f->bytes_of_frame;
    }
    printf("\n");
    (void)cam;
}

// consume `nframes` frames (or all) of the mapped region and check the C06 sequence oracle on what is consumed
static void do_unmap(int s, int nframes)
{
    size_t consumed = 0;
    check_region_unchanged(s, "unmap");
    if (g_mon_beg[s]) {
        const uint8_t* cur = (const uint8_t*)g_mon_beg[s];
        const uint8_t* end = (const uint8_t*)g_mon_end[s];
        int cam = g_cfg_cam[s];
        int k = g_cfg_avg[s] > 1 ? g_cfg_avg[s] : 1;
        int cnt = 0;
        while (cur < end && (nframes < 0 || cnt < nframes)) {
            const struct VideoFrame* f = (const struct VideoFrame*)cur;
            if (cur + f->bytes_of_frame > end || f->bytes_of_frame < sizeof(struct VideoFrame)) break;
            unsigned run = cam >= 0 ? mock_dev(cam)->run : 0;
            // freshness: the first frame seen in an acquisition is that acquisition's frame 0 or later of the same run;
            // payload identifies the run
            if (k == 1 && cam >= 0) {
                size_t img = bytes_of_image(&f->shape);
                int ok = 1;
                for (size_t i = 0; i < img; ++i)
                    if (f->data[i] != mock_pixel(cam, run, f->hardware_frame_id, i)) { ok = 0; break; }
                if (!ok) oracle("monitor-frame-not-from-current-acquisition cause=%s stream=%d frame=%llu",
                                g_mon_late[s] ? "first-map-after-a-finished-acquisition" : "other", s, (unsigned long long)f->frame_id);
            }
            if (g_mon_seen_in_acq[s] && g_mon_last_run[s] == run && (int64_t)f->frame_id != g_mon_last_id[s] + k)
                oracle("monitor-gap-or-repeat stream=%d last=%lld now=%llu", s, (long long)g_mon_last_id[s], (unsigned long long)f->frame_id);
            g_mon_last_id[s] = (int64_t)f->frame_id; g_mon_last_run[s] = run; g_mon_seen_in_acq[s] = 1;
            cur += f->bytes_of_frame; ++cnt;
        }
        consumed = (size_t)(cur - (const uint8_t*)g_mon_beg[s]);
    }
    enum AcquireStatusCode rc = acquire_unmap_read(g_rt, (uint32_t)s, consumed);
    g_mon_beg[s] = g_mon_end[s] = 0;
    printf("API unmap %d %zu -> %s\n", s, consumed, rc == AcquireStatus_Ok ? "ok" : "err");
}

static int g_cosim, g_in_window;
static void state_line(void);

static void exec_client(const char* op)
{
    char v[64];
    if (!strncmp(op, "cfg ", 4)) {
        int s = atoi(op + 4);
        if (s < 0 || s > 1) return;
        struct aq_properties_video_s* pv = &g_props.video[s];
        g_new_cam[s] = kv(op, "cam", v, sizeof v) && v[0] != '-' ? atoi(v) : -1;
        g_new_sto[s] = kv(op, "sto", v, sizeof v) && v[0] != '-' ? atoi(v) : -1;
        select_dev(DeviceKind_Camera, g_new_cam[s], &pv->camera.identifier);
        select_dev(DeviceKind_Storage, g_new_sto[s], &pv->storage.identifier);
        pv->camera.settings.shape.x = kv(op, "w", v, sizeof v) ? (uint32_t)atoi(v) : 4;
        pv->camera.settings.shape.y = kv(op, "h", v, sizeof v) ? (uint32_t)atoi(v) : 4;
        pv->camera.settings.pixel_type = kv(op, "type", v, sizeof v) ? (enum SampleType)atoi(v) : SampleType_u8;
        pv->camera.settings.binning = 1;
        pv->camera.settings.input_triggers.frame_start.enable = kv(op, "trig", v, sizeof v) ? (uint8_t)atoi(v) : 0;
        pv->camera.settings.input_triggers.frame_start.kind = Signal_Input;
        pv->max_frame_count = kv(op, "n", v, sizeof v) ? (uint64_t)atoll(v) : 4;
        pv->frame_average_count = kv(op, "avg", v, sizeof v) ? (uint32_t)atoi(v) : 0;
        pv->storage.write_delay_ms = kv(op, "delay", v, sizeof v) ? (float)atof(v) : 0.0f;
        g_new_n[s] = pv->max_frame_count; g_new_avg[s] = (int)pv->frame_average_count;
        g_new_type[s] = (int)pv->camera.settings.pixel_type;
    } else if (!strcmp(op, "configure")) {
        const int reconfigured_while_running = acquire_get_state(g_rt) == DeviceState_Running;
        // what the oracles expect follows what acquire_configure was given, not what the client has merely prepared
        for (int s = 0; s < 2; ++s) {
            g_cfg_cam[s] = g_new_cam[s]; g_cfg_sto[s] = g_new_sto[s]; g_cfg_n[s] = g_new_n[s]; g_cfg_avg[s] = g_new_avg[s];
            if (g_cfg_cam[s] >= 0) g_cam_type[g_cfg_cam[s]] = g_new_type[s];
            g_applied_cam[s] = g_cfg_cam[s]; g_applied_sto[s] = g_cfg_sto[s];
        }
        if (reconfigured_while_running) { g_cfg_while_running = 1; g_run_n[0] = g_cfg_n[0]; g_run_n[1] = g_cfg_n[1]; }
        enum AcquireStatusCode rc = acquire_configure(g_rt, &g_props);
        printf("API configure -> %s valid=%d state=%s\n", rc == AcquireStatus_Ok ? "ok" : "err", (int)rt()->valid_video_streams,
               device_state_as_string(acquire_get_state(g_rt)));
    } else if (!strcmp(op, "start")) {
        // expected camera run per storage device: unchanged when the call is refused because an acquisition is running
        int was_running = acquire_get_state(g_rt) == DeviceState_Running;
        if (!was_running)
            for (int s = 0; s < 2; ++s)
                if (g_cfg_sto[s] >= 0 && g_cfg_cam[s] >= 0) {
                    g_cam_of_sto[g_cfg_sto[s]] = g_cfg_cam[s];
                    g_camrun_of_sto[g_cfg_sto[s]] = mock_dev(g_cfg_cam[s])->run + 1;
                    g_avg_of_sto[g_cfg_sto[s]] = g_cfg_avg[s];
                    g_run_n[s] = g_cfg_n[s];
                }
        if (!was_running) {
            for (int d = 0; d < MOCK_NDEV; ++d) { g_starts_at_start[d] = mock_dev(d)->starts; g_dev_in_use[d] = 0; }
            for (int s = 0; s < 2; ++s)
                if (g_applied_sto[s] >= 0 && g_applied_cam[s] >= 0) g_dev_in_use[g_applied_sto[s]] = g_dev_in_use[g_applied_cam[s]] = 1;
            g_have_start_snapshot = 1;
        }
        enum AcquireStatusCode rc = acquire_start(g_rt);
        if (rc == AcquireStatus_Ok) g_acq_open = 1;
        printf("API start -> %s\n", rc == AcquireStatus_Ok ? "ok" : "err");
    } else if (!strcmp(op, "stop")) {
        ++g_mon_epoch;
        enum AcquireStatusCode rc = acquire_stop(g_rt);
        printf("API stop -> %s\n", rc == AcquireStatus_Ok ? "ok" : "err");
        if (g_acq_open) { check_acquisition("stop"); ++g_nfinished; }
        g_mon_late[0] = g_mon_late[1] = 0;
        g_acq_open = 0;
        check_devices("stop");
    } else if (!strcmp(op, "abort")) {
        ++g_mon_epoch;
        g_in_abort = 1;
        enum AcquireStatusCode rc = acquire_abort(g_rt);
        g_in_abort = 0;
        printf("API abort -> %s\n", rc == AcquireStatus_Ok ? "ok" : "err");
        if (g_acq_open) { check_acquisition("abort"); ++g_nfinished; }
        g_mon_late[0] = g_mon_late[1] = 0;
        g_acq_open = 0;
        check_devices("abort");
    } else if (!strncmp(op, "trigger ", 8)) {
        enum AcquireStatusCode rc = acquire_execute_trigger(g_rt, (uint32_t)atoi(op + 8));
        printf("API trigger %d -> %s\n", atoi(op + 8), rc == AcquireStatus_Ok ? "ok" : "err");
    } else if (!strcmp(op, "state")) {
        enum DeviceState st = acquire_get_state(g_rt);
        int alive = 0;
        for (int s = 0; s < 2; ++s)
            if ((rt()->valid_video_streams >> s) & 1)
                alive |= rt()->video[s].source.is_running | rt()->video[s].filter.is_running | rt()->video[s].sink.is_running;
        if (st == DeviceState_Running && !alive) oracle("state-running-but-no-worker-alive");
        // the same question put to the scheduler instead of the workers' own flags: Running while every thread but the client's has ended
        int live = 0;
        for (int t = 1; t < detsched_thread_count(); ++t) { int o = 0, e = 0; if (detsched_thread_pending(t, &o, &e) >= 0) ++live; }
        if (st == DeviceState_Running && live == 0) oracle("state-running-but-every-worker-thread-has-ended");
        printf("API state -> %s\n", device_state_as_string(st));
    } else if (!strncmp(op, "map ", 4)) {
        do_map(atoi(op + 4));
    } else if (!strncmp(op, "unmap ", 6)) {
        int s = atoi(op + 6);
        const char* a = strchr(op + 6, ' ');
        do_unmap(s, (a && strncmp(a + 1, "all", 3)) ? atoi(a + 1) : -1);
    } else if (!strncmp(op, "monwait ", 8)) {
        // a client that keeps monitoring until the acquisition has finished
        int s = atoi(op + 8), spins = 0;
        while (acquire_get_state(g_rt) == DeviceState_Running && spins++ < 100000) {
            do_map(s);
            do_unmap(s, -1);
            clock_sleep_ms(0, 1.0f);
        }
        printf("API monwait %d -> %s\n", s, device_state_as_string(acquire_get_state(g_rt)));
    } else if (!strcmp(op, "waitidle")) {
        int spins = 0;
        while (acquire_get_state(g_rt) == DeviceState_Running && spins++ < 100000) clock_sleep_ms(0, 1.0f);
        printf("API waitidle -> %s\n", device_state_as_string(acquire_get_state(g_rt)));
    } else if (!strncmp(op, "sleep ", 6)) {
        for (int i = atoi(op + 6); i > 0; --i) clock_sleep_ms(0, 1.0f);
    } else if (!strcmp(op, "window")) {
        // co-simulation window: from here on every scheduler decision is reported (the model starts here)
        g_in_window = 1;
        printf("WINDOW\n");
    } else if (!strcmp(op, "endwindow")) {
        if (g_in_window) { printf("ENDWINDOW\n"); state_line(); }
        g_in_window = 0;
    } else if (!strcmp(op, "shutdown")) {
        if (g_in_window) { printf("ENDWINDOW\n"); state_line(); }
        g_in_window = 0;
        enum AcquireStatusCode rc = acquire_shutdown(g_rt);
        g_rt = 0;
        printf("API shutdown -> %s\n", rc == AcquireStatus_Ok ? "ok" : "err");
        check_devices("shutdown");
    } else {
        printf("API bad-op %s\n", op);
    }
}

static void body(void* arg)
{
    (void)arg;
    g_cfg_while_running = 0;
    g_rt = acquire_init(reporter);
    if (!g_rt) { printf("API init -> err\n"); return; }
    acquire_get_configuration(g_rt, &g_props);
    printf("API init -> ok\n");
    for (int i = 0; i < g_nprog; ++i)
        exec_client(g_prog[i]);
    if (g_rt) exec_client("shutdown");
}

// ------------------------------------------------------------------------------- co-simulation output
// g_cosim: print one D/S pair per scheduler decision inside the window

static int g_invisible; // the client is inside channel_accept_writes on a filter's queue (not part of M1's vocabulary)
static int g_client_tid = -1;

void verif_accept_writes(struct channel* ch, int v)
{
    int is_filter = 0;
    if (g_rt)
        for (int s = 0; s < 2; ++s)
            if (ch == &rt()->video[s].filter.in) is_filter = 1;
    if (is_filter) { g_invisible++; g_client_tid = detsched_self(); }
    (channel_accept_writes)(ch, v);
    if (is_filter) g_invisible--;
}

static void chan_digest(const struct channel* c, int hide_accept)
{
    printf("%zu %zu %zu %zu %d %u [", c->head, c->high, c->cycle, c->mapped, hide_accept || c->is_accepting_writes ? 1 : 0, c->holds.n);
    for (unsigned i = 0; i < c->holds.n && i < 8; ++i) printf("%s%zu:%zu", i ? " " : "", c->holds.pos[i], c->holds.cycles[i]);
    printf("]");
}
static void rd_digest(const struct channel_reader* r)
{
    printf("%u:%zu:%zu:%d:%d", r->id, r->pos, r->cycle, (int)r->status, r->state == ChannelState_Mapped ? 1 : 0);
}
static void state_line(void)
{
    struct runtime* r = rt();
    printf("S");
    for (int s = 0; s < 2; ++s) {
        struct video_s* v = &r->video[s];
        printf(" s%d: K=", s); chan_digest(&v->sink.in, 0);
        printf(" F="); chan_digest(&v->filter.in, 1);
        printf(" R="); rd_digest(&v->sink.reader); printf(";"); rd_digest(&v->filter.reader); printf(";"); rd_digest(&v->monitor.reader);
        printf(" fl=%d%d%d%d%d%d", v->source.is_stopping, v->source.is_running, v->filter.is_stopping, v->filter.is_running,
               v->sink.is_stopping, v->sink.is_running);
        printf(" hal=%d%d", v->source.camera ? (int)v->source.camera->state : 2, v->sink.storage ? (int)v->sink.storage->state : 2);
        printf(" |");
    }
    printf(" rt=%d\n", (int)r->state);
}
static void on_event(void* ctx, const struct detsched_event* ev)
{
    (void)ctx;
    if (g_cosim >= 2) {
        // every scheduler decision with the set of enabled threads (for the systematic enumeration of schedules)
        printf("Q %d en=", ev->tid);
        int n = detsched_thread_count(), first = 1;
        for (int t = 0; t < n; ++t) { int obj = -1, en = 0; if (detsched_thread_pending(t, &obj, &en) >= 0 && en) { printf("%s%d", first ? "" : ",", t); first = 0; } }
        printf("\n");
    }
    if (!g_cosim || !g_in_window || !g_rt) return;
    if (g_invisible && ev->tid == g_client_tid) return;
    printf("D %d %s %s\n", ev->tid, detsched_kind_name(ev->kind), ev->label && ev->label[0] ? ev->label : "-");
    state_line();
}

// ------------------------------------------------------------------------------- scheduler glue
static uint64_t digest(void* ctx)
{
    (void)ctx;
    uint64_t h = 1469598103934665603ull;
#define MIX(x) do { h ^= (uint64_t)(x); h *= 1099511628211ull; } while (0)
    MIX(g_mock.log_len);
    if (g_rt) {
        struct runtime* r = rt();
        for (int s = 0; s < 2; ++s) {
            struct video_s* v = &r->video[s];
            struct channel* cs[2] = { &v->sink.in, &v->filter.in };
            for (int c = 0; c < 2; ++c) {
                MIX(cs[c]->head); MIX(cs[c]->high); MIX(cs[c]->cycle); MIX(cs[c]->mapped); MIX(cs[c]->is_accepting_writes);
                for (unsigned i = 0; i < cs[c]->holds.n && i < 8; ++i) { MIX(cs[c]->holds.pos[i]); MIX(cs[c]->holds.cycles[i]); }
            }
            MIX(v->source.is_running); MIX(v->source.is_stopping); MIX(v->filter.is_running); MIX(v->filter.is_stopping);
            MIX(v->sink.is_running); MIX(v->sink.is_stopping);
        }
        MIX(r->state);
    }
    int n = detsched_thread_count();
    for (int t = 0; t < n; ++t) { int obj, en; MIX(detsched_thread_pending(t, &obj, &en)); }
    return h;
}

static void on_terminal(void* ctx, int code)
{
    (void)ctx;
    const char* what = code == DETSCHED_EXIT_DEADLOCK ? "DEADLOCK" : code == DETSCHED_EXIT_HANG ? "HANG"
                     : code == DETSCHED_EXIT_STEP_LIMIT ? "STEP-LIMIT" : "MISUSE";
    int n = detsched_thread_count();
    printf("THREADS");
    for (int t = 0; t < n; ++t) { int obj = -1, en = 0; int k = detsched_thread_pending(t, &obj, &en); printf(" %d:%s:%d", t, k < 0 ? "-" : detsched_kind_name(k), en); }
    printf("\n");
    if (g_rt) {
        struct runtime* r = rt();
        for (int s = 0; s < 2; ++s) {
            struct video_s* v = &r->video[s];
            printf("FLAGS stream=%d src=%d/%d flt=%d/%d snk=%d/%d sinkch=%zu/%zu/%zu acc=%d filtch=%zu/%zu/%zu acc=%d\n", s,
                   v->source.is_running, v->source.is_stopping, v->filter.is_running, v->filter.is_stopping, v->sink.is_running, v->sink.is_stopping,
                   v->sink.in.head, v->sink.in.high, v->sink.in.cycle, v->sink.in.is_accepting_writes,
                   v->filter.in.head, v->filter.in.high, v->filter.in.cycle, v->filter.in.is_accepting_writes);
        }
    }
    // why: a registered monitor reader that lags behind the sink's reader while a source is still alive
    // (the client, blocked in acquire_stop, cannot consume) -- or something else
    const char* cause = "other";
    if (g_rt) {
        struct runtime* r = rt();
        for (int s = 0; s < 2; ++s) {
            struct video_s* v = &r->video[s];
            unsigned m = v->monitor.reader.id, k = v->sink.reader.id;
            if (!((r->valid_video_streams >> s) & 1) || !m || !k || m > 8 || k > 8) continue;
            const struct channel* c = &v->sink.in;
            int mon_lags = c->holds.cycles[m - 1] < c->holds.cycles[k - 1] ||
                           (c->holds.cycles[m - 1] == c->holds.cycles[k - 1] && c->holds.pos[m - 1] < c->holds.pos[k - 1]) ||
                           (v->monitor.reader.state == ChannelState_Mapped);
            // (the finding is about acquire_stop, which waits for completion; acquire_abort refuses writes and must get out of this)
            if (mon_lags && (v->source.is_running || v->filter.is_running) && c->is_accepting_writes && !g_in_abort) cause = "stalled-monitor";
        }
    }
    printf("ORACLE runtime-%s-never-returns cause=%s\n", what, cause);
    printf("END %s\n", what);
    detsched_print_schedule(stdout);
    fflush(stdout);
}

static void run_child(char* spec)
{
    struct detsched_config cfg;
    detsched_config_default(&cfg);
    char mode[16] = "random"; unsigned long long seed = 1; int depth = 3;
    int* sched = 0;
    sscanf(spec, "%15s", mode);
    if (!strcmp(mode, "random")) { sscanf(spec, "%*s %llu", &seed); cfg.mode = DETSCHED_RANDOM; cfg.seed = seed; }
    else if (!strcmp(mode, "pct")) { sscanf(spec, "%*s %llu %d", &seed, &depth); cfg.mode = DETSCHED_PCT; cfg.seed = seed; cfg.pct_depth = depth; cfg.pct_steps = 2000; }
    else {
        char* list = strchr(spec, ' ');
        cfg.mode = DETSCHED_EXPLICIT;
        cfg.default_policy = strstr(spec, "lowest") ? DETSCHED_LOWEST : strstr(spec, "sticky") ? DETSCHED_STICKY : DETSCHED_FAIR;
        cfg.nschedule = list ? detsched_parse_schedule(list + 1, &sched) : 0;
        cfg.schedule = sched;
    }
    cfg.step_limit = g_limit;
    cfg.hang_rounds = g_hang_rounds;
    cfg.digest = digest;
    cfg.on_terminal = on_terminal;
    cfg.on_event = on_event;
    mock_reset();
    for (int i = 0; i < g_nfaults; ++i) {
        int d = 0, c = 0; char p = 0;
        if (sscanf(g_faults[i], "cam %d %d %c", &d, &c, &p) >= 2) { g_mock.cam_fail_at[d] = c; g_mock.cam_fail_persistent |= (p == 'p'); }
        else if (sscanf(g_faults[i], "sto %d %d %c", &d, &c, &p) >= 2) { g_mock.sto_fail_at[d] = c; g_mock.sto_fail_persistent |= (p == 'p'); }
        else if (sscanf(g_faults[i], "camempty %d", &c) == 1) g_mock.cam_empty_every = c;
        else if (sscanf(g_faults[i], "camstartfail %d %d", &d, &c) == 2) g_mock.cam_start_fails[d] = c;
        else if (sscanf(g_faults[i], "openfail %d %d", &d, &c) == 2) g_mock.open_fails[d] = c;
        else if (sscanf(g_faults[i], "descfail %d %d", &d, &c) == 2) g_mock.desc_fails[d] = c;
        else if (sscanf(g_faults[i], "stostartfail %d %d", &d, &c) == 2) g_mock.sto_start_fails[d] = c;
        else if (sscanf(g_faults[i], "stostopawait %d", &d) == 1) g_mock.sto_stop_await[d] = 1;
        else if (sscanf(g_faults[i], "stosetfail %d %d", &d, &c) == 2) g_mock.sto_set_fails[d] = c;
        else if (sscanf(g_faults[i], "stoincomplete %d", &d) == 1) g_mock.sto_incomplete[d] = 1;
        else if (!strncmp(g_faults[i], "stoconsumed", 11)) g_mock.sto_reports_consumed = 1;
    }
    detsched_init(&cfg);
    printf("RUN %s", spec);
    detsched_run_main(body, 0);
    printf("END ok oracle_fails=%lu\n", g_oracle_fails);
    detsched_print_schedule(stdout);
    fflush(stdout);
    _exit(0);
}

int main(void)
{
    static char line[8192];
    setvbuf(stdout, 0, _IOFBF, 1 << 16);
    while (fgets(line, sizeof line, stdin)) {
        char* p = line;
        while (*p == ' ') ++p;
        if (!strncmp(p, "ring ", 5)) g_ring = (size_t)atol(p + 5);
        else if (!strncmp(p, "limit ", 6)) g_limit = (size_t)atol(p + 6);
        else if (!strncmp(p, "hang ", 5)) g_hang_rounds = atoi(p + 5);
        else if (!strncmp(p, "cosim ", 6)) g_cosim = atoi(p + 6);
        else if (!strncmp(p, "fault ", 6)) { if (g_nfaults < 16) { snprintf(g_faults[g_nfaults], 64, "%s", p + 6); g_nfaults++; } }
        else if (!strncmp(p, "camempty ", 9) || !strncmp(p, "camstartfail ", 13) || !strncmp(p, "openfail ", 9) || !strncmp(p, "descfail ", 9) || !strncmp(p, "stostartfail ", 13) || !strncmp(p, "stostopawait ", 13) || !strncmp(p, "stosetfail ", 11) || !strncmp(p, "stoconsumed", 11) || !strncmp(p, "stoincomplete ", 14)) { if (g_nfaults < 16) { snprintf(g_faults[g_nfaults], 64, "%s", p); g_nfaults++; } }
        else if (!strncmp(p, "reset", 5)) { g_nprog = 0; g_nfaults = 0; g_cosim = 0; }
        else if (!strncmp(p, "prog ", 5)) {
            char* save = 0;
            for (char* tok = strtok_r(p + 5, ";\n", &save); tok; tok = strtok_r(0, ";\n", &save)) {
                while (*tok == ' ') ++tok;
                size_t n = strlen(tok);
                while (n && tok[n - 1] == ' ') tok[--n] = 0;
                if (*tok && g_nprog < MAXOPS) snprintf(g_prog[g_nprog++], 96, "%s", tok);
            }
        } else if (!strncmp(p, "run ", 4)) {
            fflush(stdout);
            pid_t pid = fork();
            if (pid == 0) { prctl(PR_SET_PDEATHSIG, SIGKILL); run_child(p + 4); }
            int st = 0;
            waitpid(pid, &st, 0);
            if (WIFSIGNALED(st)) printf("END CRASH signal=%d\n", WTERMSIG(st));
            else if (WIFEXITED(st) && WEXITSTATUS(st) != 0 && (WEXITSTATUS(st) < 40 || WEXITSTATUS(st) > 43))
                printf("END CRASH exit=%d\n", WEXITSTATUS(st));
            fflush(stdout);
        }
    }
    return 0;
}
