// Recording, scripted, fault-injecting mock driver for the runtime harness (h_runtime).
// Statically linked: device.manager.cpp is compiled with -Ddriver_load=verif_driver_load.
//
// Devices (device_id): 0,1 = cameras "mockcam0/1"; 2,3 = storages "mockstore0/1";
//                      4 = camera "mockcam2", 5 = storage "mockstore2" (alternates for device switching).
// Every vtable entry is a detsched yield point and appends to a totally ordered call log:
//   DRV <dev> <op> [args] -> <result>
// Camera frames have deterministic pixel bytes: f(device, run ordinal, frame index, byte index).
// Storage walks every packet, verifies layout + pixels, and records one line per frame.
#include "mockdrv.h"
#include "detsched.h"
#include "device/kit/driver.h"
#include "device/kit/camera.h"
#include "device/kit/storage.h"
#include "device/props/components.h"
#include "platform.h"

#include <stdio.h>
#include <stdlib.h>
#include <string.h>

#define NDEV 6
static const struct { enum DeviceKind kind; const char* name; } g_table[NDEV] = {
    { DeviceKind_Camera, "mockcam0" }, { DeviceKind_Camera, "mockcam1" },
    { DeviceKind_Storage, "mockstore0" }, { DeviceKind_Storage, "mockstore1" },
    { DeviceKind_Camera, "mockcam2" }, { DeviceKind_Storage, "mockstore2" },
};

struct mock_script g_mock; // faults and knobs, set by the harness before/between runs

struct MockCamera
{
    struct Camera camera;
    int dev;
    struct CameraProperties props;
    uint64_t frame;      // frames generated in this run
    unsigned run;        // run ordinal (number of successful starts)
    unsigned ncalls;     // get_frame calls in this run
    struct event trigger;
    int open_ordinal;
};

struct MockStorage
{
    struct Storage storage;
    int dev;
    unsigned run;
    unsigned nappend;    // append calls in this run
    int open_ordinal;
};

static int g_open_count;
static struct mock_dev_state g_dev[NDEV];

const struct mock_dev_state* mock_dev(int dev) { return &g_dev[dev]; }

unsigned char mock_pixel(int dev, unsigned run, uint64_t frame, size_t i)
{
    uint32_t x = (uint32_t)(dev * 0x9E3779B1u) ^ (run * 0x85EBCA6Bu) ^ (uint32_t)(frame * 0xC2B2AE35u) ^ (uint32_t)(i * 0x27D4EB2Fu);
    x ^= x >> 15; x *= 0x2C1B3C6Du; x ^= x >> 12;
    return (unsigned char)x;
}

static void drvlog(int dev, const char* op, const char* fmt, ...)
{
    char buf[256];
    va_list ap;
    va_start(ap, fmt);
    vsnprintf(buf, sizeof buf, fmt, ap);
    va_end(ap);
    printf("DRV %d %s %s\n", dev, op, buf);
    g_mock.log_len++;
}

// --------------------------------------------------------------------------------- camera
static void cam_shape(const struct MockCamera* c, struct ImageShape* shape)
{
    uint32_t w = c->props.shape.x ? c->props.shape.x : 1, h = c->props.shape.y ? c->props.shape.y : 1;
    *shape = (struct ImageShape){
        .dims = { .channels = 1, .width = w, .height = h, .planes = 1 },
        .strides = { .channels = 1, .width = 1, .height = w, .planes = (int64_t)w * h },
        .type = c->props.pixel_type,
    };
}

static enum DeviceStatusCode cam_set(struct Camera* self_, struct CameraProperties* p)
{
    struct MockCamera* c = (struct MockCamera*)self_;
    detsched_yield("cam.set");
    g_dev[c->dev].calls_after_close += g_dev[c->dev].closed;
    c->props = *p;
    if (c->props.binning == 0) c->props.binning = 1;
    drvlog(c->dev, "set", "%ux%u t%d trig%d -> ok", p->shape.x, p->shape.y, (int)p->pixel_type, (int)p->input_triggers.frame_start.enable);
    return Device_Ok;
}

static enum DeviceStatusCode cam_get(const struct Camera* self_, struct CameraProperties* p)
{
    const struct MockCamera* c = (const struct MockCamera*)self_;
    *p = c->props;
    return Device_Ok;
}

static enum DeviceStatusCode cam_get_meta(const struct Camera* self_, struct CameraPropertyMetadata* m)
{
    (void)self_;
    memset(m, 0, sizeof(*m));
    return Device_Ok;
}

static enum DeviceStatusCode cam_get_shape(const struct Camera* self_, struct ImageShape* shape)
{
    const struct MockCamera* c = (const struct MockCamera*)self_;
    detsched_yield("cam.get_shape"); // so that a source that can never place its frame cannot freeze the scheduler
    cam_shape(c, shape);
    return Device_Ok;
}

static enum DeviceStatusCode cam_start(struct Camera* self_)
{
    struct MockCamera* c = (struct MockCamera*)self_;
    detsched_yield("cam.start");
    g_dev[c->dev].calls_after_close += g_dev[c->dev].closed;
    if (g_mock.cam_start_fails[c->dev] > 0) {
        g_mock.cam_start_fails[c->dev]--;
        drvlog(c->dev, "start", "-> err");
        return Device_Err;
    }
    c->frame = 0; c->ncalls = 0; c->run = g_dev[c->dev].run + 1; // runs are counted per device, across re-opens
    g_dev[c->dev].starts++; g_dev[c->dev].running = 1; g_dev[c->dev].run = c->run; g_dev[c->dev].failed = 0;
    g_dev[c->dev].delivered = 0;
    if (g_dev[c->dev].starts - g_dev[c->dev].stops > 1) g_dev[c->dev].start_while_running++;
    drvlog(c->dev, "start", "run=%u -> ok", c->run);
    return Device_Ok;
}

static enum DeviceStatusCode cam_stop(struct Camera* self_)
{
    struct MockCamera* c = (struct MockCamera*)self_;
    detsched_yield("cam.stop");
    g_dev[c->dev].calls_after_close += g_dev[c->dev].closed;
    if (!g_dev[c->dev].running) g_dev[c->dev].stop_without_start++;
    g_dev[c->dev].stops++; g_dev[c->dev].running = 0;
    if (c->props.input_triggers.frame_start.enable) event_notify_all(&c->trigger); // unblock a pending get_frame
    drvlog(c->dev, "stop", "-> ok");
    return Device_Ok;
}

static enum DeviceStatusCode cam_trigger(struct Camera* self_)
{
    struct MockCamera* c = (struct MockCamera*)self_;
    g_dev[c->dev].calls_after_close += g_dev[c->dev].closed;
    g_dev[c->dev].triggers++;
    if (c->props.input_triggers.frame_start.enable) event_notify_all(&c->trigger);
    drvlog(c->dev, "trigger", "-> ok");
    return Device_Ok;
}

static enum DeviceStatusCode cam_get_frame(struct Camera* self_, void* im, size_t* nbytes, struct ImageInfo* info)
{
    struct MockCamera* c = (struct MockCamera*)self_;
    detsched_yield("cam.get_frame");
    g_dev[c->dev].calls_after_close += g_dev[c->dev].closed;
    if (!g_dev[c->dev].running) g_dev[c->dev].frame_outside_running++;
    unsigned call = c->ncalls++;
    if (c->props.input_triggers.frame_start.enable) {
        event_wait(&c->trigger); // software trigger gates every frame
        if (!g_dev[c->dev].running) { // stop() woke us up
            *nbytes = 0;
            drvlog(c->dev, "get_frame", "call=%u -> ok empty (stopped)", call);
            return Device_Ok;
        }
    }
    if (g_mock.cam_fail_at[c->dev] >= 0 && c->run == 1 && (int)call >= g_mock.cam_fail_at[c->dev] &&
        (g_mock.cam_fail_persistent || (int)call == g_mock.cam_fail_at[c->dev])) {
        g_dev[c->dev].failed = 1;
        drvlog(c->dev, "get_frame", "call=%u -> err", call);
        return Device_Err;
    }
    if (g_dev[c->dev].failed) g_dev[c->dev].frame_after_failure++;
    if (g_mock.cam_empty_every > 0 && call % (unsigned)g_mock.cam_empty_every == (unsigned)g_mock.cam_empty_every - 1) {
        *nbytes = 0;
        drvlog(c->dev, "get_frame", "call=%u -> ok empty", call);
        return Device_Ok;
    }
    struct ImageShape shape;
    cam_shape(c, &shape);
    size_t n = bytes_of_image(&shape);
    if (*nbytes < n) {
        drvlog(c->dev, "get_frame", "call=%u -> err short buffer", call);
        return Device_Err;
    }
    unsigned char* p = (unsigned char*)im;
    for (size_t i = 0; i < n; ++i) p[i] = mock_pixel(c->dev, c->run, c->frame, i);
    *nbytes = n;
    *info = (struct ImageInfo){ .shape = shape, .hardware_timestamp = 1000 + c->frame, .hardware_frame_id = c->frame };
    drvlog(c->dev, "get_frame", "call=%u -> ok frame=%llu run=%u n=%zu", call, (unsigned long long)c->frame, c->run, n);
    c->frame++;
    g_dev[c->dev].delivered++;
    g_dev[c->dev].delivered_total++;
    return Device_Ok;
}

// --------------------------------------------------------------------------------- storage
static enum DeviceState sto_set(struct Storage* self_, const struct StorageProperties* p)
{
    struct MockStorage* s = (struct MockStorage*)self_;
    (void)p;
    detsched_yield("sto.set");
    g_dev[s->dev].calls_after_close += g_dev[s->dev].closed;
    if (g_mock.sto_set_fails[s->dev] > 0) {
        g_mock.sto_set_fails[s->dev]--;
        g_dev[s->dev].needs_config = 1;
        drvlog(s->dev, "set", "-> awaiting (settings rejected)");
        return DeviceState_AwaitingConfiguration;
    }
    g_dev[s->dev].needs_config = 0;
    drvlog(s->dev, "set", "-> armed");
    return DeviceState_Armed;
}
static void sto_get(const struct Storage* self_, struct StorageProperties* p) { (void)self_; memset(p, 0, sizeof(*p)); }
static void sto_get_meta(const struct Storage* self_, struct StoragePropertyMetadata* m) { (void)self_; memset(m, 0, sizeof(*m)); }

static enum DeviceState sto_start(struct Storage* self_)
{
    struct MockStorage* s = (struct MockStorage*)self_;
    detsched_yield("sto.start");
    g_dev[s->dev].calls_after_close += g_dev[s->dev].closed;
    if (g_dev[s->dev].needs_config) g_dev[s->dev].start_unconfigured++;
    if (g_mock.sto_start_fails[s->dev] > 0) {
        g_mock.sto_start_fails[s->dev]--;
        g_dev[s->dev].needs_config = 1;
        drvlog(s->dev, "start", "-> awaiting (fault)");
        return DeviceState_AwaitingConfiguration;
    }
    s->run = g_dev[s->dev].run + 1; s->nappend = 0;
    g_dev[s->dev].starts++; g_dev[s->dev].running = 1; g_dev[s->dev].run = s->run; g_dev[s->dev].failed = 0;
    if (g_dev[s->dev].starts - g_dev[s->dev].stops > 1) g_dev[s->dev].start_while_running++;
    g_dev[s->dev].stored = 0;
    drvlog(s->dev, "start", "run=%u -> running", s->run);
    return DeviceState_Running;
}

static enum DeviceState sto_stop(struct Storage* self_)
{
    struct MockStorage* s = (struct MockStorage*)self_;
    detsched_yield("sto.stop");
    g_dev[s->dev].calls_after_close += g_dev[s->dev].closed;
    if (!g_dev[s->dev].running) g_dev[s->dev].stop_without_start++;
    g_dev[s->dev].stops++; g_dev[s->dev].running = 0;
    if (g_mock.sto_stop_await[s->dev]) {
        g_dev[s->dev].needs_config = 1;
        drvlog(s->dev, "stop", "-> awaiting");
        return DeviceState_AwaitingConfiguration;
    }
    drvlog(s->dev, "stop", "-> armed");
    return DeviceState_Armed;
}

static enum DeviceState sto_append(struct Storage* self_, const struct VideoFrame* frame, size_t* nbytes)
{
    struct MockStorage* s = (struct MockStorage*)self_;
    detsched_yield("sto.append");
    g_dev[s->dev].calls_after_close += g_dev[s->dev].closed;
    if (!g_dev[s->dev].running) g_dev[s->dev].append_outside_running++;
    if (g_dev[s->dev].failed) g_dev[s->dev].append_after_failure++;
    unsigned call = s->nappend++;
    const uint8_t* beg = (const uint8_t*)frame;
    const uint8_t* end = beg + *nbytes;
    int nfr = 0;
    if (((uintptr_t)beg) % 8) { printf("ORACLE packet-misaligned %d %zu\n", s->dev, (size_t)((uintptr_t)beg % 8)); }
    const uint8_t* cur = beg;
    while (cur < end) {
        const struct VideoFrame* f = (const struct VideoFrame*)cur;
        size_t img = bytes_of_image(&f->shape);
        size_t want = 8 * ((sizeof(struct VideoFrame) + img + 7) / 8);
        if (((uintptr_t)cur) % 8 || f->bytes_of_frame != want || cur + f->bytes_of_frame > end) {
            printf("ORACLE packet-not-whole-frames %d %zu %zu %zu\n", s->dev, (size_t)(cur - beg), (size_t)f->bytes_of_frame, (size_t)(end - cur));
            break;
        }
        mock_record_frame(s->dev, s->run, f, img);
        g_dev[s->dev].stored++;
        cur += f->bytes_of_frame;
        ++nfr;
    }
    if (g_mock.sto_fail_at[s->dev] >= 0 && s->run == 1 && (int)call >= g_mock.sto_fail_at[s->dev] && *nbytes > 0 &&
        (g_mock.sto_fail_persistent || !g_dev[s->dev].failed)) {
        g_dev[s->dev].failed = 1;
        g_dev[s->dev].running = 0; g_dev[s->dev].stops++; // the device stopped itself and reports Armed
        // a failing append stored nothing
        g_dev[s->dev].stored -= nfr;
        mock_unrecord_frames(s->dev, nfr);
        drvlog(s->dev, "append", "call=%u bytes=%zu frames=%d -> armed (fault)", call, *nbytes, nfr);
        // a driver may say how much of the packet it had taken before it failed; that is information, not an invitation to go on
        if (g_mock.sto_reports_consumed && nfr >= 2) *nbytes = ((const struct VideoFrame*)frame)->bytes_of_frame;
        return DeviceState_Armed;
    }
    drvlog(s->dev, "append", "call=%u bytes=%zu frames=%d -> running", call, *nbytes, nfr);
    return DeviceState_Running;
}

static void sto_reserve(struct Storage* self_, const struct ImageShape* shape) { (void)self_; (void)shape; }
static void sto_destroy(struct Storage* self_) { (void)self_; }

// --------------------------------------------------------------------------------- driver
static uint32_t drv_count(struct Driver* d) { (void)d; return NDEV; }

static enum DeviceStatusCode drv_describe(const struct Driver* d, struct DeviceIdentifier* id, uint64_t i)
{
    (void)d;
    if (i >= NDEV) return Device_Err;
    if (g_mock.just_opened[i]) {
        // driver_open_device describes the device it has just opened; a failure here must not leak the open device
        g_mock.just_opened[i] = 0;
        if (g_mock.desc_fails[i] > 0) {
            g_mock.desc_fails[i]--;
            drvlog((int)i, "describe", "-> err (fault)");
            return Device_Err;
        }
    }
    memset(id, 0, sizeof(*id));
    id->device_id = (uint8_t)i;
    id->kind = g_table[i].kind;
    snprintf(id->name, sizeof(id->name), "%s", g_table[i].name);
    return Device_Ok;
}

static enum DeviceStatusCode drv_open(struct Driver* d, uint64_t i, struct Device** out)
{
    (void)d;
    if (i >= NDEV) return Device_Err;
    detsched_yield("drv.open");
    if (g_mock.open_fails[i] > 0) {
        g_mock.open_fails[i]--;
        drvlog((int)i, "open", "-> err (fault)");
        return Device_Err;
    }
    if (g_dev[i].open && !g_dev[i].closed) g_dev[i].double_open++;
    g_dev[i].open = 1; g_dev[i].closed = 0; g_dev[i].opens++;
    if (g_table[i].kind == DeviceKind_Camera) {
        struct MockCamera* c = calloc(1, sizeof(*c));
        c->dev = (int)i; c->open_ordinal = ++g_open_count;
        c->camera = (struct Camera){ .state = DeviceState_AwaitingConfiguration, .set = cam_set, .get = cam_get, .get_meta = cam_get_meta,
                                     .get_shape = cam_get_shape, .start = cam_start, .stop = cam_stop,
                                     .execute_trigger = cam_trigger, .get_frame = cam_get_frame };
        c->props.shape.x = 4; c->props.shape.y = 4; c->props.binning = 1;
        event_init(&c->trigger);
        *out = &c->camera.device;
    } else {
        struct MockStorage* s = calloc(1, sizeof(*s));
        s->dev = (int)i; s->open_ordinal = ++g_open_count;
        s->storage = (struct Storage){ .state = DeviceState_AwaitingConfiguration, .set = sto_set, .get = sto_get, .get_meta = sto_get_meta,
                                       .start = sto_start, .append = sto_append, .stop = sto_stop, .destroy = sto_destroy,
                                       .reserve_image_shape = sto_reserve };
        if (g_mock.sto_incomplete[i]) s->storage.reserve_image_shape = 0;   // an incomplete interface: the HAL refuses the device (and closes it once)
        *out = &s->storage.device;
    }
    (*out)->identifier.device_id = (uint8_t)i; // so that close() knows the device even if describe() never filled the identifier
    g_mock.just_opened[i] = 1;
    drvlog((int)i, "open", "-> ok");
    return Device_Ok;
}

static enum DeviceStatusCode drv_close(struct Driver* d, struct Device* dev)
{
    (void)d;
    int i = dev->identifier.device_id;
    detsched_yield("drv.close");
    if (g_dev[i].closed || !g_dev[i].open) g_dev[i].double_close++;
    if (g_dev[i].running) g_dev[i].closed_while_running++;
    g_dev[i].closed = 1; g_dev[i].open = 0; g_dev[i].closes++;
    drvlog(i, "close", "-> ok");
    if (g_table[i].kind == DeviceKind_Camera) event_destroy(&((struct MockCamera*)dev)->trigger);
    free(dev); // a later touch is an ASan report
    return Device_Ok;
}

static enum DeviceStatusCode drv_shutdown(struct Driver* d) { (void)d; return Device_Ok; }

static struct Driver g_driver = { .device_count = drv_count, .describe = drv_describe, .open = drv_open, .close = drv_close, .shutdown = drv_shutdown };

struct Driver* verif_driver_load(const char* name, void (*reporter)(int, const char*, int, const char*, const char*))
{
    (void)reporter;
    if (!strcmp(name, "acquire-driver-common")) return &g_driver;
    return 0;
}

void mock_reset(void)
{
    memset(g_dev, 0, sizeof(g_dev));
    memset(&g_mock, 0, sizeof(g_mock));
    for (int i = 0; i < NDEV; ++i) { g_mock.cam_fail_at[i] = -1; g_mock.sto_fail_at[i] = -1; }
    g_open_count = 0;
}
