#ifndef H_VERIF_MOCKDRV
#define H_VERIF_MOCKDRV
#include <stddef.h>
#include <stdint.h>
struct VideoFrame;
struct Driver;

#define MOCK_NDEV 6

struct mock_script
{
    int cam_fail_at[MOCK_NDEV];      // get_frame call index (per run) that fails; -1 = never
    int cam_fail_persistent;         // every later call fails too
    int sto_fail_at[MOCK_NDEV];      // append call index (per run) that fails; -1 = never
    int sto_fail_persistent;
    int cam_empty_every;             // every n-th get_frame returns 0 bytes (aborted write); 0 = never
    int sto_start_fails[MOCK_NDEV];  // number of upcoming storage starts that fail (the device answers AwaitingConfiguration)
    int sto_stop_await[MOCK_NDEV];   // the storage answers AwaitingConfiguration to stop(): it must be configured again before the next start
    int cam_start_fails[MOCK_NDEV];  // number of upcoming camera starts that fail
    int desc_fails[MOCK_NDEV];       // number of upcoming opens of this device whose describe() fails after a successful open()
    int just_opened[MOCK_NDEV];
    int open_fails[MOCK_NDEV];       // number of upcoming opens of this device that fail (busy / unplugged)
    int sto_set_fails[MOCK_NDEV];    // number of upcoming set() calls of this storage that reject the settings (AwaitingConfiguration)
    int sto_incomplete[MOCK_NDEV];   // the storage device leaves an entry of its interface NULL (built against an older device kit)
    int sto_reports_consumed;        // a failing append reports how many bytes it had consumed before it failed (kit/storage.h), the fault is transient
    unsigned long log_len;           // number of DRV lines so far (for state digests)
};
extern struct mock_script g_mock;

struct mock_dev_state
{
    int open, closed, running, failed;
    unsigned opens, closes, starts, stops, triggers, run;
    unsigned long delivered, delivered_total, stored;
    // protocol violations observed by the driver itself (C08 / C09 / C11 oracles)
    unsigned calls_after_close, double_open, double_close, closed_while_running, start_while_running,
      stop_without_start, frame_outside_running, append_outside_running, append_after_failure, frame_after_failure,
      start_unconfigured;   // start() on a storage that had answered AwaitingConfiguration and was not configured since
    int needs_config;
};
const struct mock_dev_state* mock_dev(int dev);
unsigned char mock_pixel(int dev, unsigned run, uint64_t frame, size_t i);
void mock_reset(void);

// implemented by the harness: one call per frame found in an appended packet
void mock_record_frame(int sto_dev, unsigned sto_run, const struct VideoFrame* f, size_t image_bytes);
void mock_unrecord_frames(int sto_dev, int n);

struct Driver* verif_driver_load(const char* name, void (*reporter)(int, const char*, int, const char*, const char*));
#endif
