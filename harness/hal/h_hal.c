// Correspondence + oracle harness for the REAL device HAL:
//   acquire-device-hal/device/hal/{camera.c,storage.c,driver.c}
// driven through the line protocol of `acq_hal` (lean/Driver/HalMain.lean).
//
// The devices come from a scripted, recording mock driver:
//  * every answer the driver gives (status codes, DeviceStates, the initial
//    `state` of a new device) is popped from the queue given on the input line;
//  * every driver entry point appends to the call log (printed on the result
//    line) and feeds the PROTOCOL ORACLE below, which knows nothing about the
//    Lean model: it is the text of property C11 evaluated on what the driver
//    sees (plus the device's `state` field, which a driver can read);
//  * `close` really frees the device object, so that any later touch by the
//    HAL - even a 4-byte store - is an AddressSanitizer report.  With argument
//    `soft` the object is instead filled with a pattern and kept, and a changed
//    pattern is reported as `ORACLE write-after-close` (used by the check to
//    keep exploring after the first sanitizer abort).
#include "device/hal/camera.h"
#include "device/hal/storage.h"
#include "device/hal/driver.h"
#include "device/hal/device.manager.h"
#include "device/kit/camera.h"
#include "device/kit/storage.h"
#include "device/kit/driver.h"
#include "device/props/components.h"
#include "logger.h"

#include <sanitizer/common_interface_defs.h>
#include <stdio.h>
#include <stdlib.h>
#include <string.h>

#define MAXDEV 4096
#define MAXQ 16

enum { K_CAM = 0, K_STO = 1 };

// ---- scripted answers ------------------------------------------------------
static unsigned g_q[MAXQ];
static int g_qn, g_qi;
static unsigned pop(void) { return g_qi < g_qn ? g_q[g_qi++] : 0; }

// ---- registry of devices the mock driver created ---------------------------
static struct
{
    void* ptr;        // struct Camera* / struct Storage* (== struct Device*)
    size_t size;
    int kind;
    int live;         // created and not yet closed
    int run;          // oracle: the driver is running (see on_call)
    int soft_closed;  // soft mode: closed, memory kept and filled with PATTERN
    int leak_reported;
} g_dev[MAXDEV];
static int g_ndev;
static int g_soft;
static int g_open_kind; // kind the next driver->open creates (set by the harness before a HAL open)

#define PATTERN 0xA5

// ---- output buffers ----------------------------------------------------------
static char g_log[4096];
static size_t g_loglen;
static char g_orc[4096];
static size_t g_orclen;
static unsigned long g_noracle;

static void logf_(const char* fmt, ...) __attribute__((format(printf, 1, 2)));
#include <stdarg.h>
static void logf_(const char* fmt, ...)
{
    va_list ap;
    va_start(ap, fmt);
    if (g_loglen < sizeof(g_log) - 96) {
        if (g_loglen) g_log[g_loglen++] = ' ';
        g_loglen += (size_t)vsnprintf(g_log + g_loglen, 96, fmt, ap);
    }
    va_end(ap);
}
static void oracle_fail(const char* what, long a, long b)
{
    ++g_noracle;
    if (g_orclen < sizeof(g_orc) - 128)
        g_orclen += (size_t)snprintf(g_orc + g_orclen, 128, "ORACLE %s %ld %ld\n", what, a, b);
}

static int find_dev(const void* p)
{
    for (int i = g_ndev - 1; i >= 0; --i)
        if (g_dev[i].ptr == p && (g_dev[i].live || g_dev[i].soft_closed))
            return i;
    return -1;
}

// ---- PROTOCOL ORACLE (property text, evaluated on the driver's view) ---------
enum { F_SET, F_GET, F_GET_META, F_GET_SHAPE, F_START, F_STOP, F_TRIGGER, F_GET_FRAME, F_APPEND, F_RESERVE };
static const char* fn_name[] = { "set", "get", "get_meta", "get_shape", "start", "stop", "trigger", "get_frame", "append", "reserve" };

// returns the device ordinal if the call may touch the device, -1 otherwise
static int on_entry(const void* self, int fn)
{
    int id = find_dev(self);
    if (id < 0 || !g_dev[id].live) {
        // the driver is called with a device it has already released (or never made)
        oracle_fail("call-on-closed-device", id, fn);
        logf_("%s#dead", fn_name[fn]);
        return -1;
    }
    return id;
}

static void on_call(int id, int fn, unsigned st, unsigned r)
{
    int cam = g_dev[id].kind == K_CAM;
    if (fn == F_STOP) {
        if (!g_dev[id].run) oracle_fail("stop-without-successful-start", id, (long)st);
        if (st != DeviceState_Running) oracle_fail("stop-outside-running-state", id, (long)st);
        if (cam) { if (r == Device_Ok || r == Device_Err) g_dev[id].run = 0; } // any other value is not an answer
        else g_dev[id].run = (r == DeviceState_Running);
    } else if (fn == F_GET_FRAME || fn == F_APPEND) {
        if (st != DeviceState_Running) oracle_fail("frame-or-append-outside-running-state", id, (long)st);
        if (!g_dev[id].run) oracle_fail("frame-or-append-without-successful-start", id, (long)st);
        if (!cam) g_dev[id].run = (r == DeviceState_Running);
    } else if (fn == F_START) {
        if (cam) g_dev[id].run = g_dev[id].run || (r == Device_Ok);
        else g_dev[id].run = (r == DeviceState_Running);
    } else if (fn == F_SET && !cam) {
        g_dev[id].run = (r == DeviceState_Running);
    }
}

// ---- mock camera -------------------------------------------------------------
#define CAM_ENTRY(FN, POP)                                                     \
    int id = on_entry(self, FN);                                               \
    if (id < 0) return Device_Err;                                             \
    unsigned st = (unsigned)((const struct Camera*)self)->state;               \
    unsigned r = (POP) ? pop() : 0;                                            \
    logf_("%s#%d@%u=%u", fn_name[FN], id, st, r);                              \
    on_call(id, FN, st, r);                                                    \
    return (enum DeviceStatusCode)r

static enum DeviceStatusCode mc_set(struct Camera* self, struct CameraProperties* p) { (void)p; CAM_ENTRY(F_SET, 1); }
static enum DeviceStatusCode mc_get(const struct Camera* self, struct CameraProperties* p) { (void)p; CAM_ENTRY(F_GET, 1); }
static enum DeviceStatusCode mc_get_meta(const struct Camera* self, struct CameraPropertyMetadata* p) { (void)p; CAM_ENTRY(F_GET_META, 1); }
static enum DeviceStatusCode mc_get_shape(const struct Camera* self, struct ImageShape* p) { (void)p; CAM_ENTRY(F_GET_SHAPE, 1); }
static enum DeviceStatusCode mc_start(struct Camera* self) { CAM_ENTRY(F_START, 1); }
static enum DeviceStatusCode mc_stop(struct Camera* self) { CAM_ENTRY(F_STOP, 1); }
static enum DeviceStatusCode mc_trigger(struct Camera* self) { CAM_ENTRY(F_TRIGGER, 1); }
static enum DeviceStatusCode mc_get_frame(struct Camera* self, void* im, size_t* nbytes, struct ImageInfo* info)
{
    (void)im; (void)info;
    if (nbytes) *nbytes = 0;
    CAM_ENTRY(F_GET_FRAME, 1);
}

// ---- mock storage ------------------------------------------------------------
#define STO_ENTRY(FN, POP, RET)                                                \
    int id = on_entry(self, FN);                                               \
    if (id < 0) return RET;                                                    \
    unsigned st = (unsigned)((const struct Storage*)self)->state;              \
    unsigned r = (POP) ? pop() : 0;                                            \
    logf_("%s#%d@%u=%u", fn_name[FN], id, st, r);                              \
    on_call(id, FN, st, r)

static enum DeviceState ms_set(struct Storage* self, const struct StorageProperties* p) { (void)p; STO_ENTRY(F_SET, 1, DeviceState_Closed); return (enum DeviceState)r; }
static void ms_get(const struct Storage* self, struct StorageProperties* p) { (void)p; STO_ENTRY(F_GET, 0, ); }
static void ms_get_meta(const struct Storage* self, struct StoragePropertyMetadata* p) { (void)p; STO_ENTRY(F_GET_META, 0, ); }
static enum DeviceState ms_start(struct Storage* self) { STO_ENTRY(F_START, 1, DeviceState_Closed); return (enum DeviceState)r; }
// the packet the caller handed to storage_append: whatever the HAL offers the device must lie inside it; the device takes only half of
// a packet and says so (device/kit/storage.h: "can consume 0 to *nbytes ... must set *nbytes to the number of consumed bytes")
static const unsigned char *g_pkt_beg, *g_pkt_end;
static enum DeviceState ms_append(struct Storage* self, const struct VideoFrame* f, size_t* nbytes)
{
    STO_ENTRY(F_APPEND, 1, DeviceState_Closed);
    if (nbytes && g_pkt_beg) {
        const unsigned char* b = (const unsigned char*)f;
        if (b < g_pkt_beg || b + *nbytes > g_pkt_end) oracle_fail("append-region-outside-the-packet", (long)(b - g_pkt_beg), (long)*nbytes);
        if (*nbytes >= 16) *nbytes = 8 * (*nbytes / 16);
    }
    return (enum DeviceState)r;
}
static enum DeviceState ms_stop(struct Storage* self) { STO_ENTRY(F_STOP, 1, DeviceState_Closed); return (enum DeviceState)r; }
static void ms_destroy(struct Storage* self) { (void)self; oracle_fail("destroy-called-by-hal", 0, 0); }
static void ms_reserve(struct Storage* self, const struct ImageShape* p) { (void)p; STO_ENTRY(F_RESERVE, 0, ); }

// ---- mock driver -------------------------------------------------------------
static enum DeviceStatusCode md_open(struct Driver* self, uint64_t device_id, struct Device** out)
{
    (void)self; (void)device_id;
    unsigned v = pop();
    if (v == 0) {
        unsigned init = pop();
        if (g_ndev >= MAXDEV) { fprintf(stderr, "harness: too many devices\n"); exit(3); }
        int id = g_ndev++;
        memset(&g_dev[id], 0, sizeof(g_dev[id]));
        g_dev[id].kind = g_open_kind;
        g_dev[id].live = 1;
        g_dev[id].run = (init == DeviceState_Running);
        if (g_open_kind == K_CAM) {
            struct Camera* c = (struct Camera*)calloc(1, sizeof(*c));
            c->state = (enum DeviceState)init;
            c->set = mc_set; c->get = mc_get; c->get_meta = mc_get_meta; c->get_shape = mc_get_shape;
            c->start = mc_start; c->stop = mc_stop; c->execute_trigger = mc_trigger; c->get_frame = mc_get_frame;
            g_dev[id].ptr = c; g_dev[id].size = sizeof(*c);
            *out = &c->device;
        } else {
            struct Storage* s = (struct Storage*)calloc(1, sizeof(*s));
            s->state = (enum DeviceState)init;
            s->set = ms_set; s->get = ms_get; s->get_meta = ms_get_meta; s->start = ms_start;
            s->append = ms_append; s->stop = ms_stop; s->destroy = ms_destroy; s->reserve_image_shape = ms_reserve;
            g_dev[id].ptr = s; g_dev[id].size = sizeof(*s);
            *out = &s->device;
        }
        logf_("open=0:%d:%u", id, init);
        return Device_Ok;
    }
    if (v == 2) {
        *out = 0;
        logf_("open=0:-:0");
        return Device_Ok;
    }
    logf_("open=%u:-:0", v);
    return (enum DeviceStatusCode)v;
}

static enum DeviceStatusCode md_describe(const struct Driver* self, struct DeviceIdentifier* ident, uint64_t i)
{
    (void)self;
    int id = find_dev(ident);
    if (id < 0 || !g_dev[id].live) {
        oracle_fail("describe-on-closed-device", id, 0);
        logf_("describe#dead");
        return Device_Err;
    }
    unsigned r = pop();
    ident->kind = g_dev[id].kind == K_CAM ? DeviceKind_Camera : DeviceKind_Storage;
    ident->device_id = (uint8_t)i;
    snprintf(ident->name, sizeof(ident->name), "mock%d", id);
    logf_("describe#%d=%u", id, r);
    return (enum DeviceStatusCode)r;
}

static void release(int id)
{
    g_dev[id].live = 0;
    if (g_soft) {
        memset(g_dev[id].ptr, PATTERN, g_dev[id].size);
        g_dev[id].soft_closed = 1;
    } else {
        free(g_dev[id].ptr); // a real driver's close frees (basics.driver.c: writer->destroy(writer))
        g_dev[id].ptr = 0;
    }
}

static enum DeviceStatusCode md_close(struct Driver* self, struct Device* dev)
{
    (void)self;
    int id = find_dev(dev);
    if (id < 0 || !g_dev[id].live) {
        oracle_fail("close-of-closed-device", id, 0); // more than one close for an open
        logf_("close#dead");
        return Device_Err;
    }
    unsigned r = pop();
    logf_("close#%d=%u", id, r);
    release(id);
    return (enum DeviceStatusCode)r;
}

static struct Driver g_driver = { .device_count = 0, .describe = md_describe, .open = md_open, .close = md_close, .shutdown = 0 };

// the one function of device.manager.cpp the HAL's open functions need
struct Driver* device_manager_get_driver(const struct DeviceManager* self, const struct DeviceIdentifier* identifier)
{
    (void)self; (void)identifier;
    return &g_driver;
}

// ---- the caller's side -------------------------------------------------------
static struct Camera* h_cam;
static struct Storage* h_sto;

enum { C_COPEN, C_CSET, C_CGET, C_CMETA, C_CSHAPE, C_CSTART, C_CSTOP, C_CTRIG, C_CFRAME, C_CCLOSE,
       C_SVALIDATE, C_SOPEN, C_SSET, C_SGET, C_SMETA, C_SSTART, C_SSTOP, C_SAPPEND, C_SRESERVE, C_SCLOSE, C_COUNT };
static const char* call_name[] = { "copen", "cset", "cget", "cmeta", "cshape", "cstart", "cstop", "ctrig", "cframe", "cclose",
                                   "svalidate", "sopen", "sset", "sget", "smeta", "sstart", "sstop", "sappend", "sreserve", "sclose" };

static unsigned reported_state(void)
{
    if (h_cam) return (unsigned)camera_get_state(h_cam);
    if (h_sto) return (unsigned)storage_get_state(h_sto);
    return (unsigned)camera_get_state(0) | (unsigned)storage_get_state(0); // both Closed for NULL
}

// STATE ORACLE: the state the HAL must report after a call, from the state reported before and the
// driver's answers (hk: -1 no handle, K_CAM, K_STO).  Written from the property text, not from the model.
static unsigned qat(int i) { return i < g_qn ? g_q[i] : 0; }
static unsigned expected_state(int hk, unsigned prev, int call, unsigned arg)
{
    unsigned r = qat(0);
    const unsigned Await = DeviceState_AwaitingConfiguration, Armed = DeviceState_Armed, Running = DeviceState_Running;
    if (call == C_SVALIDATE) return prev;
    if (hk < 0) {
        if (call == C_COPEN || call == C_SOPEN) return (qat(0) == 0 && qat(2) == Device_Ok) ? qat(1) : DeviceState_Closed;
        return DeviceState_Closed;
    }
    if (call == C_CCLOSE || call == C_SCLOSE) return DeviceState_Closed;
    if (hk == K_CAM) switch (call) {
        case C_CSET: if (!arg) return prev; return r == Device_Ok ? (prev == Running ? Running : Armed) : r == Device_Err ? Await : prev;
        case C_CSTART: return r == Device_Ok ? Running : r == Device_Err ? Await : prev;
        case C_CSTOP: return prev != Running ? prev : r == Device_Ok ? Armed : r == Device_Err ? Await : prev;
        case C_CFRAME: return (prev == Running && r != Device_Ok) ? Await : prev;
        default: return prev;
    }
    switch (call) {
        case C_SSET: return arg ? r : prev;
        case C_SSTART: return prev == Armed ? r : prev;
        case C_SSTOP: return prev == Running ? r : prev;
        case C_SAPPEND: return (prev == Running && arg >= 2) ? r : prev;
        default: return prev;
    }
}

static void reset_all(void)
{
    for (int i = 0; i < g_ndev; ++i) {
        if (g_dev[i].live || g_dev[i].soft_closed) free(g_dev[i].ptr);
    }
    g_ndev = 0;
    h_cam = 0;
    h_sto = 0;
}

static void on_death(void) { fflush(stdout); }

int main(int argc, char** argv)
{
    static char line[512];
    static struct DeviceManager dm;
    static struct DeviceIdentifier cam_id = { .kind = DeviceKind_Camera, .device_id = 0 };
    static struct DeviceIdentifier sto_id = { .kind = DeviceKind_Storage, .device_id = 1 };
    static struct CameraProperties cprops;
    static struct CameraPropertyMetadata cmeta;
    static struct ImageShape shape;
    static struct ImageInfo info;
    static struct StorageProperties sprops;
    static struct StoragePropertyMetadata smeta;
    static uint8_t frames[1024] __attribute__((aligned(16)));
    static char outbuf[1 << 16];
    setvbuf(stdout, outbuf, _IOFBF, sizeof(outbuf));
    g_soft = argc > 1 && !strcmp(argv[1], "soft");
    logger_set_reporter(0);
    __sanitizer_set_death_callback(on_death); // keep the result lines printed before a sanitizer abort

    while (fgets(line, sizeof(line), stdin)) {
        char name[32] = { 0 };
        unsigned nums[MAXQ + 1] = { 0 };
        int nn = 0, off = 0;
        if (sscanf(line, "%31s%n", name, &off) < 1) continue;
        if (!strcmp(name, "new")) {
            reset_all();
            puts("new");
            continue;
        }
        {
            const char* p = line + off;
            int adv;
            while (nn < MAXQ + 1 && sscanf(p, "%u%n", &nums[nn], &adv) == 1) { p += adv; ++nn; }
        }
        int call = -1;
        for (int i = 0; i < C_COUNT; ++i) if (!strcmp(name, call_name[i])) call = i;
        if (call < 0) { puts("bad-op"); continue; }
        unsigned arg = nums[0];
        g_qn = nn > 1 ? nn - 1 : 0;
        memcpy(g_q, nums + 1, sizeof(unsigned) * (size_t)g_qn);
        g_qi = 0;
        g_loglen = 0; g_log[0] = 0;
        g_orclen = 0; g_orc[0] = 0;

        // well-formed use of the one handle (same rule as Call.wf of the model)
        int hk = h_cam ? K_CAM : h_sto ? K_STO : -1;
        int is_open = call == C_COPEN || call == C_SOPEN;
        int ckind = call < C_SVALIDATE ? K_CAM : K_STO;
        if (call != C_SVALIDATE && hk >= 0 && (is_open || ckind != hk)) { puts("illformed"); continue; }

        unsigned prev = reported_state();
        unsigned ret = 0;
        switch (call) {
            case C_COPEN: g_open_kind = K_CAM; h_cam = camera_open(&dm, &cam_id); ret = h_cam ? 0 : 1; break;
            case C_CSET: cprops.binning = 0; ret = camera_set(h_cam, arg ? &cprops : 0); break;
            case C_CGET: ret = camera_get(h_cam, arg ? &cprops : 0); break;
            case C_CMETA: ret = camera_get_meta(h_cam, arg ? &cmeta : 0); break;
            case C_CSHAPE: ret = camera_get_image_shape(h_cam, arg ? &shape : 0); break;
            case C_CSTART: ret = camera_start(h_cam); break;
            case C_CSTOP: ret = camera_stop(h_cam); break;
            case C_CTRIG: ret = camera_execute_trigger(h_cam); break;
            case C_CFRAME: { size_t nbytes = sizeof(frames); ret = camera_get_frame(h_cam, frames, &nbytes, &info); } break;
            case C_CCLOSE: camera_close(h_cam); h_cam = 0; ret = 0; break;
            case C_SVALIDATE: g_open_kind = K_STO; ret = storage_validate(&dm, &sto_id, &sprops) ? 0 : 1; break;
            case C_SOPEN: g_open_kind = K_STO; h_sto = storage_open(&dm, &sto_id); ret = h_sto ? 0 : 1; break;
            case C_SSET: ret = storage_set(h_sto, arg ? &sprops : 0); break;
            case C_SGET: ret = storage_get(h_sto, &sprops); break;
            case C_SMETA: ret = storage_get_meta(h_sto, &smeta); break;
            case C_SSTART: ret = storage_start(h_sto); break;
            case C_SSTOP: ret = storage_stop(h_sto); break;
            case C_SAPPEND: {
                const struct VideoFrame* mid = (const struct VideoFrame*)(frames + 512);
                const struct VideoFrame* beg = arg == 0 ? (const struct VideoFrame*)(frames + 768) : mid;
                const struct VideoFrame* end = arg >= 2 ? (const struct VideoFrame*)(frames + 768) : mid;
                g_pkt_beg = (const unsigned char*)beg; g_pkt_end = (const unsigned char*)end;
                ret = storage_append(h_sto, beg, end);
                g_pkt_beg = g_pkt_end = 0;
            } break;
            case C_SRESERVE: ret = storage_reserve_image_shape(h_sto, &shape); break;
            case C_SCLOSE: storage_close(h_sto); h_sto = 0; ret = 0; break;
        }
        unsigned now = reported_state();

        // ---- oracles on what just happened ----
        {
            unsigned want = expected_state(hk, prev, call, arg);
            if (want != now) oracle_fail("state-not-from-driver-response", (long)want, (long)now);
        }
        void* held = h_cam ? (void*)h_cam : (void*)h_sto;
        for (int i = 0; i < g_ndev; ++i) {
            if (g_dev[i].live && g_dev[i].ptr != held && !g_dev[i].leak_reported) {
                // the driver opened it, nobody holds a handle: it can never be closed
                oracle_fail("device-never-closed", i, call);
                g_dev[i].leak_reported = 1;
            }
            if (g_dev[i].soft_closed) {
                const unsigned char* p = (const unsigned char*)g_dev[i].ptr;
                for (size_t k = 0; k < g_dev[i].size; ++k)
                    if (p[k] != PATTERN) {
                        oracle_fail("write-after-close", i, (long)k);
                        memset(g_dev[i].ptr, PATTERN, g_dev[i].size);
                        break;
                    }
            }
        }

        printf("%u %u | %s\n", ret, now, g_log);
        if (g_orclen) fputs(g_orc, stdout);
    }
    fflush(stdout);
    reset_all();
    return 0;
}
