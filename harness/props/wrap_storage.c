// Wrapper translation unit: the REAL props/storage.c of the repository (found
// through the include path .../acquire-device-properties), with its calls to
// malloc/realloc/free routed to the logging allocator of h_props.c.  The
// standard headers are included first so that only the *calls* inside
// storage.c are renamed, not the libc declarations.  The second half of
// storage.c (unit tests) is excluded the way the file itself provides for.
#include <stdlib.h>
#include <string.h>
#include <stddef.h>

void* h_malloc(size_t n);
void* h_realloc(void* p, size_t n);
void h_free(void* p);

#define malloc h_malloc
#define realloc h_realloc
#define free h_free
#define NO_UNIT_TESTS 1

#include "device/props/storage.c"

#undef malloc
#undef realloc
#undef free

// Entry points for the file-local functions (the harness drives them directly
// as well as through the public API).
int
w_dimensions_init(struct StorageProperties* self, size_t size)
{
    return storage_properties_dimensions_init(self, size);
}

void
w_dimensions_destroy(struct StorageProperties* self)
{
    storage_properties_dimensions_destroy(self);
}

size_t
w_sizeof_dimension(void)
{
    return sizeof(struct StorageDimension);
}
