// Correspondence + oracle harness for the REAL props/storage.c (property C13).
//
// Reads the line protocol of `acq_props` on stdin, executes every operation on
// the real code (compiled through wrap_storage.c, ASan+UBSan) and prints one
// canonical result line per operation:
//
//   rc=<r> | <object 0> | <object 1> | <object 2> | ev=<allocator events>
//
// Heap addresses never appear: every block handed out by the library's
// malloc/realloc is numbered in allocation order (per case) and pointers are
// printed as `h<ordinal>/<block size>`; two fields that alias print the same
// ordinal.  Allocator events are `+ord:size` and `-ord` in program order.
//
// Independently of the model, the PROPERTY ORACLE evaluates the text of C13 on
// the implementation's state after every call and prints `ORACLE <kind> ...`:
//   double-free, free-unknown      a block is released twice / was never handed out
//   dangling                       an owning field points to a released block
//   alias                          a live block is owned by more than one field
//   leak                           a live block is owned by no field (lost)
//   string-nbytes-zero / string-not-terminated / string-block-too-small
//   copy-not-equal                 after copy, dst differs from src in some field
//   other-object-changed           an object that was not the target changed (for copy: the source)
//   leak-at-end                    blocks still live after every object was destroyed
// Reads through stale pointers *inside* the library are caught by ASan (the
// process aborts with its report; the check treats that as a result).
//
// Operations (o, d, s = object index 0..2; S = string argument, see parse_str):
//   new
//   init o ffid S_uri S_meta px py ndims
//   uri o S | meta o S | keys o S S | dim o index S kind array chunk shard
//   ms o v | copy d s | destroy o | ref o field S | dinit o n | ddestroy o
//   end                            destroys every object, reports live blocks
// String argument S:  `-` = (NULL,0)   `N<k>` = (NULL,k)   `x<hex>` = caller
// buffer of exactly len bytes (may be empty, need not be terminated).
#include "device/props/storage.h"
#include "logger.h"
#include <stdio.h>
#include <stdlib.h>
#include <string.h>
#include <stdarg.h>

int w_dimensions_init(struct StorageProperties* self, size_t size);
void w_dimensions_destroy(struct StorageProperties* self);
size_t w_sizeof_dimension(void);

static unsigned long g_log_errors;
void aq_logger(int is_error, const char* file, int line, const char* function, const char* fmt, ...)
{
    (void)file; (void)line; (void)function; (void)fmt;
    if (is_error) ++g_log_errors;
}

// ---------------------------------------------------------------- output buffers
static char g_orc[1 << 14];
static size_t g_orc_len;
static unsigned long g_oracle_fails;
static void oracle_fail(const char* fmt, ...)
{
    ++g_oracle_fails;
    if (g_orc_len > sizeof(g_orc) - 300) return;
    va_list ap;
    va_start(ap, fmt);
    g_orc_len += (size_t)snprintf(g_orc + g_orc_len, 8, "ORACLE ");
    g_orc_len += (size_t)vsnprintf(g_orc + g_orc_len, 256, fmt, ap);
    g_orc[g_orc_len++] = '\n';
    g_orc[g_orc_len] = 0;
    va_end(ap);
}

static char g_ev[1 << 14];
static size_t g_ev_len;
static void ev(const char* fmt, ...)
{
    if (g_ev_len > sizeof(g_ev) - 64) return;
    va_list ap;
    va_start(ap, fmt);
    if (g_ev_len) g_ev[g_ev_len++] = ' ';
    g_ev_len += (size_t)vsnprintf(g_ev + g_ev_len, 48, fmt, ap);
    va_end(ap);
}

// ---------------------------------------------------------------- logged allocator (library side only)
struct blk { char* p; size_t n; int freed; int reported; };
#define MAXBLK 65536
static struct blk tab[MAXBLK];
static int ntab;
static const char* g_op = "?";

static int blk_find(const void* p)
{
    for (int i = ntab - 1; i >= 0; --i)
        if (tab[i].p == (const char*)p) return i;
    return -1;
}

void* h_malloc(size_t n)
{
    if (ntab >= MAXBLK) { fprintf(stderr, "h_props: block table full\n"); exit(3); }
    char* p = (char*)malloc(n ? n : 1);
    if (!p) return 0;
    memset(p, 0xA5, n);  // uninitialised memory is not zero
    tab[ntab].p = p; tab[ntab].n = n; tab[ntab].freed = 0; tab[ntab].reported = 0;
    ev("+%d:%zu", ntab, n);
    ++ntab;
    return p;
}

void h_free(void* p)
{
    if (!p) return;
    int i = blk_find(p);
    if (i < 0) { oracle_fail("free-unknown op=%s", g_op); return; }
    if (tab[i].freed) { oracle_fail("double-free block=%d op=%s", i, g_op); return; }
    tab[i].freed = 1;
    ev("-%d", i);
    free(p);
}

// realloc always moves: a legal implementation, and the one under which a
// stale copy of the old pointer is always detectable.
void* h_realloc(void* p, size_t n)
{
    if (!p) return h_malloc(n);
    int i = blk_find(p);
    if (i < 0 || tab[i].freed) { oracle_fail("realloc-of-%s op=%s", i < 0 ? "unknown" : "freed", g_op); return 0; }
    char* q = (char*)h_malloc(n);
    if (!q) return 0;
    memcpy(q, p, tab[i].n < n ? tab[i].n : n);
    h_free(p);
    return q;
}

// ---------------------------------------------------------------- objects, caller memory
#define NOBJ 3
static struct StorageProperties pool[NOBJ];
static void* caller_mem[4096];
static int ncaller;

static struct String* field_of(struct StorageProperties* o, int f)
{
    switch (f) {
        case 0: return &o->uri;
        case 1: return &o->external_metadata_json;
        case 2: return &o->access_key_id;
        default: return &o->secret_access_key;
    }
}

static void hex(char** w, const unsigned char* p, size_t n)
{
    static const char d[] = "0123456789abcdef";
    for (size_t i = 0; i < n; ++i) { *(*w)++ = d[p[i] >> 4]; *(*w)++ = d[p[i] & 15]; }
    **w = 0;
}

// canonical text of one String: pointer identity (ordinal), sizes, flag, content
static void put_str(char** w, const struct String* s, int check, const char* where)
{
    if (!s->str) { *w += sprintf(*w, "0:%zu:%d", s->nbytes, (int)s->is_ref); return; }
    if (s->is_ref) {
        *w += sprintf(*w, "e:%zu:%d:", s->nbytes, (int)s->is_ref);
        hex(w, (const unsigned char*)s->str, s->nbytes);
        return;
    }
    int i = blk_find(s->str);
    if (i < 0 || tab[i].freed) {
        *w += sprintf(*w, "X:%zu:%d", s->nbytes, (int)s->is_ref);
        if (check) oracle_fail("dangling field=%s block=%d op=%s", where, i, g_op);
        return;
    }
    *w += sprintf(*w, "h%d/%zu:%zu:%d:", i, tab[i].n, s->nbytes, (int)s->is_ref);
    size_t n = s->nbytes <= tab[i].n ? s->nbytes : tab[i].n;
    hex(w, (const unsigned char*)s->str, n);
    if (check) {
        if (s->nbytes == 0) oracle_fail("string-nbytes-zero field=%s op=%s", where, g_op);
        else if (s->nbytes > tab[i].n) oracle_fail("string-block-too-small field=%s nbytes=%zu block=%zu op=%s", where, s->nbytes, tab[i].n, g_op);
        else if (s->str[s->nbytes - 1] != 0) oracle_fail("string-not-terminated field=%s op=%s", where, g_op);
    }
}

static const char* FNAME[4] = { "uri", "external_metadata_json", "access_key_id", "secret_access_key" };

static void put_obj(char** w, const struct StorageProperties* o, int check)
{
    static const char tag[4] = { 'U', 'M', 'A', 'S' };
    for (int f = 0; f < 4; ++f) {
        *w += sprintf(*w, "%c=", tag[f]);
        put_str(w, field_of((struct StorageProperties*)o, f), check, FNAME[f]);
        *(*w)++ = ' ';
    }
    *w += sprintf(*w, "f=%u p=%ld,%ld ms=%u D=", (unsigned)o->first_frame_id, (long)o->pixel_scale_um.x,
                  (long)o->pixel_scale_um.y, (unsigned)o->enable_multiscale);
    const struct StorageDimension* d = o->acquisition_dimensions.data;
    size_t n = o->acquisition_dimensions.size;
    if (!d) { *w += sprintf(*w, "0:%zu", n); return; }
    int i = blk_find(d);
    if (i < 0 || tab[i].freed) {
        *w += sprintf(*w, "X:%zu", n);
        if (check) oracle_fail("dangling field=acquisition_dimensions.data block=%d op=%s", i, g_op);
        return;
    }
    *w += sprintf(*w, "h%d/%zu:%zu[", i, tab[i].n, n);
    if (n * sizeof(*d) > tab[i].n) {
        if (check) oracle_fail("dimension-array-too-small size=%zu block=%zu op=%s", n, tab[i].n, g_op);
        n = tab[i].n / sizeof(*d);
    }
    for (size_t k = 0; k < n; ++k) {
        if (k) *(*w)++ = ';';
        put_str(w, &d[k].name, check, "dimension.name");
        *w += sprintf(*w, ",%u,%u,%u,%u", (unsigned)d[k].kind, (unsigned)d[k].array_size_px,
                      (unsigned)d[k].chunk_size_px, (unsigned)d[k].shard_size_chunks);
    }
    *(*w)++ = ']';
    **w = 0;
}

// content only (no pointer identity), NULL/empty strings normalised to "\0": what "equal" means for copy
static void view_str(char** w, const struct String* s)
{
    if (!(s->str && s->nbytes)) { *w += sprintf(*w, "00"); return; }
    if (!s->is_ref) {
        int i = blk_find(s->str);
        if (i < 0 || tab[i].freed || tab[i].n < s->nbytes) { *w += sprintf(*w, "?"); return; }
    }
    hex(w, (const unsigned char*)s->str, s->nbytes);
}

static void view_obj(char** w, const struct StorageProperties* o)
{
    for (int f = 0; f < 4; ++f) { view_str(w, field_of((struct StorageProperties*)o, f)); *(*w)++ = ' '; }
    *w += sprintf(*w, "f=%u p=%a,%a ms=%u D=%zu[", (unsigned)o->first_frame_id, o->pixel_scale_um.x,
                  o->pixel_scale_um.y, (unsigned)o->enable_multiscale, o->acquisition_dimensions.size);
    const struct StorageDimension* d = o->acquisition_dimensions.data;
    int i = d ? blk_find(d) : -1;
    if (d && (i < 0 || tab[i].freed)) { *w += sprintf(*w, "?]"); return; }
    for (size_t k = 0; d && k < o->acquisition_dimensions.size && (k + 1) * sizeof(*d) <= tab[i].n; ++k) {
        view_str(w, &d[k].name);
        *w += sprintf(*w, ",%u,%u,%u,%u;", (unsigned)d[k].kind, (unsigned)d[k].array_size_px,
                      (unsigned)d[k].chunk_size_px, (unsigned)d[k].shard_size_chunks);
    }
    *(*w)++ = ']';
    **w = 0;
}

// ownership: every live block is owned by exactly one field of one object
static int owners[MAXBLK];
static void own(const void* p)
{
    int i = blk_find(p);
    if (i >= 0 && !tab[i].freed) ++owners[i];
}
static void oracle_ownership(void)
{
    memset(owners, 0, sizeof(owners[0]) * (size_t)ntab);
    for (int o = 0; o < NOBJ; ++o) {
        for (int f = 0; f < 4; ++f) {
            struct String* s = field_of(&pool[o], f);
            if (s->str && !s->is_ref) own(s->str);
        }
        struct StorageDimension* d = pool[o].acquisition_dimensions.data;
        if (!d) continue;
        int i = blk_find(d);
        if (i < 0 || tab[i].freed) continue;
        ++owners[i];
        if (owners[i] > 1) continue;  // reached through an alias: its names were counted already
        size_t n = pool[o].acquisition_dimensions.size;
        if (n * sizeof(*d) > tab[i].n) n = tab[i].n / sizeof(*d);
        for (size_t k = 0; k < n; ++k)
            if (d[k].name.str && !d[k].name.is_ref) own(d[k].name.str);
    }
    for (int i = 0; i < ntab; ++i) {
        if (tab[i].freed || tab[i].reported) continue;  // each lost / shared block is reported once
        if (owners[i] == 0) oracle_fail("leak block=%d size=%zu op=%s", i, tab[i].n, g_op);
        else if (owners[i] > 1) oracle_fail("alias block=%d owners=%d op=%s", i, owners[i], g_op);
        if (owners[i] != 1) tab[i].reported = 1;
    }
}

static int live_blocks(void)
{
    int n = 0;
    for (int i = 0; i < ntab; ++i) n += !tab[i].freed;
    return n;
}

// ---------------------------------------------------------------- arguments
struct arg { char* p; size_t n; };  // p==0: NULL pointer
static unsigned char* g_argmem[8];
static int g_nargmem;

static int hexval(int c) { return c >= '0' && c <= '9' ? c - '0' : c >= 'a' && c <= 'f' ? c - 'a' + 10 : -1; }

// returns 0 on malformed token. Buffers are exactly n bytes long so that any
// read past the stated length is an ASan report.
static int parse_str(const char* t, struct arg* a, int keep)
{
    a->p = 0; a->n = 0;
    if (!strcmp(t, "-")) return 1;
    if (t[0] == 'N') { a->n = strtoul(t + 1, 0, 10); return 1; }
    if (t[0] != 'x') return 0;
    size_t L = strlen(t + 1);
    if (L % 2) return 0;
    unsigned char* b = (unsigned char*)malloc(L / 2);
    for (size_t i = 0; i < L / 2; ++i) {
        int h = hexval(t[1 + 2 * i]), l = hexval(t[2 + 2 * i]);
        if (h < 0 || l < 0) { free(b); return 0; }
        b[i] = (unsigned char)(h * 16 + l);
    }
    a->p = (char*)b; a->n = L / 2;
    if (keep) caller_mem[ncaller++] = b; else g_argmem[g_nargmem++] = b;
    return 1;
}
static void free_args(void)
{
    for (int i = 0; i < g_nargmem; ++i) free(g_argmem[i]);
    g_nargmem = 0;
}

static int holds_memory(const struct StorageProperties* o)
{
    for (int f = 0; f < 4; ++f) {
        const struct String* s = field_of((struct StorageProperties*)o, f);
        if (s->str && !s->is_ref) return 1;
    }
    return o->acquisition_dimensions.data != 0;
}

static void reset_case(void)
{
    for (int i = 0; i < ntab; ++i)
        if (!tab[i].freed) free(tab[i].p);
    ntab = 0;
    for (int i = 0; i < ncaller; ++i) free(caller_mem[i]);
    ncaller = 0;
    memset(pool, 0, sizeof(pool));
    g_ev_len = 0; g_ev[0] = 0;
}

static char out[1 << 16];
static char before[NOBJ][1 << 14];
static char after[1 << 14];
static char va[1 << 14], vb[1 << 14];

int main(void)
{
    static char line[1 << 15];
    static char opname[32];
    setvbuf(stdout, 0, _IOFBF, 1 << 16);
    while (fgets(line, sizeof line, stdin)) {
        char* tok[16];
        int nt = 0;
        for (char* t = strtok(line, " \t\r\n"); t && nt < 16; t = strtok(0, " \t\r\n")) tok[nt++] = t;
        if (!nt) continue;
        snprintf(opname, sizeof opname, "%s", tok[0]);
        g_op = opname;
        g_ev_len = 0; g_ev[0] = 0;
        g_orc_len = 0; g_orc[0] = 0;
        const char* op = tok[0];
        if (!strcmp(op, "new") && nt == 1) {
            reset_case();
            printf("new sizeof_dim=%zu\n", w_sizeof_dimension());
            continue;
        }
        if (!strcmp(op, "end") && nt == 1) {
            for (int o = 0; o < NOBJ; ++o) storage_properties_destroy(&pool[o]);
            int live = live_blocks(), fresh = 0;
            for (int i = 0; i < ntab; ++i) fresh += !tab[i].freed && !tab[i].reported;
            if (fresh) oracle_fail("leak-at-end live=%d", live);  // blocks not already reported as lost
            for (int o = 0; o < NOBJ; ++o) {
                char* w = after;
                put_obj(&w, &pool[o], 1);
            }
            printf("end live=%d | ev=%s\n", live, g_ev);
            fputs(g_orc, stdout);
            fflush(stdout);
            continue;
        }
        for (int o = 0; o < NOBJ; ++o) { char* w = before[o]; put_obj(&w, &pool[o], 0); }
        int rc = -1, target = -1, source = -1, bad = 0, ill = 0;
        long o = nt > 1 ? strtol(tok[1], 0, 10) : -1;
        struct arg a = { 0, 0 }, b = { 0, 0 };
        if (o < 0 || o >= NOBJ) ill = 1;
        else if (!strcmp(op, "init") && nt == 8) {
            if (!parse_str(tok[3], &a, 0) || !parse_str(tok[4], &b, 0)) bad = 1;
            else if (holds_memory(&pool[o])) ill = 1;
            else {
                struct PixelScale px = { (double)strtol(tok[5], 0, 10), (double)strtol(tok[6], 0, 10) };
                target = (int)o;
                rc = storage_properties_init(&pool[o], (uint32_t)strtoul(tok[2], 0, 10), a.p, a.n, b.p, b.n, px,
                                             (uint8_t)strtoul(tok[7], 0, 10));
            }
        } else if (!strcmp(op, "uri") && nt == 3) {
            if (!parse_str(tok[2], &a, 0)) bad = 1;
            else { target = (int)o; rc = storage_properties_set_uri(&pool[o], a.p, a.n); }
        } else if (!strcmp(op, "meta") && nt == 3) {
            if (!parse_str(tok[2], &a, 0)) bad = 1;
            else { target = (int)o; rc = storage_properties_set_external_metadata(&pool[o], a.p, a.n); }
        } else if (!strcmp(op, "keys") && nt == 4) {
            if (!parse_str(tok[2], &a, 0) || !parse_str(tok[3], &b, 0)) bad = 1;
            else { target = (int)o; rc = storage_properties_set_access_key_and_secret(&pool[o], a.p, a.n, b.p, b.n); }
        } else if (!strcmp(op, "dim") && nt == 8) {
            if (!parse_str(tok[3], &a, 0)) bad = 1;
            else {
                target = (int)o;
                rc = storage_properties_set_dimension(&pool[o], (int)strtol(tok[2], 0, 10), a.p, a.n,
                                                      (enum DimensionType)strtoul(tok[4], 0, 10),
                                                      (uint32_t)strtoul(tok[5], 0, 10), (uint32_t)strtoul(tok[6], 0, 10),
                                                      (uint32_t)strtoul(tok[7], 0, 10));
            }
        } else if (!strcmp(op, "ms") && nt == 3) {
            target = (int)o;
            rc = storage_properties_set_enable_multiscale(&pool[o], (uint8_t)strtoul(tok[2], 0, 10));
        } else if (!strcmp(op, "copy") && nt == 3) {
            long s = strtol(tok[2], 0, 10);
            if (s < 0 || s >= NOBJ || s == o) ill = 1;
            else { target = (int)o; source = (int)s; rc = storage_properties_copy(&pool[o], &pool[s]); }
        } else if (!strcmp(op, "destroy") && nt == 2) {
            target = (int)o;
            storage_properties_destroy(&pool[o]);
            rc = 1;
        } else if (!strcmp(op, "ref") && nt == 4) {
            long f = strtol(tok[2], 0, 10);
            if (f < 0 || f > 3) ill = 1;
            else {
                struct String* s = field_of(&pool[o], (int)f);
                if (s->str && !s->is_ref) ill = 1;  // would drop an owned block: not a legal caller action
                else if (!parse_str(tok[3], &a, 1)) bad = 1;
                else if (!a.p || a.n == 0 || a.p[a.n - 1] != 0) ill = 1;
                else { target = (int)o; s->str = a.p; s->nbytes = a.n; s->is_ref = 1; rc = 1; }
            }
        } else if (!strcmp(op, "dinit") && nt == 3) {
            target = (int)o;
            rc = w_dimensions_init(&pool[o], strtoul(tok[2], 0, 10));
        } else if (!strcmp(op, "ddestroy") && nt == 2) {
            target = (int)o;
            w_dimensions_destroy(&pool[o]);
            rc = 1;
        } else bad = 1;
        free_args();
        if (bad) { printf("bad-op\n"); continue; }
        if (ill) { printf("illformed\n"); continue; }

        // ---- canonical result line + oracle
        char* w = out;
        w += sprintf(w, "rc=%d", rc);
        for (int k = 0; k < NOBJ; ++k) {
            w += sprintf(w, " | ");
            char* start = w;
            put_obj(&w, &pool[k], 1);
            if (k != target && strcmp(start, before[k]))
                oracle_fail("other-object-changed object=%d %s op=%s", k, k == source ? "(the copy source)" : "", g_op);
        }
        sprintf(w, " | ev=%s", g_ev);
        oracle_ownership();
        if (source >= 0 && rc == 1) {
            char* x = va; view_obj(&x, &pool[target]);
            char* y = vb; view_obj(&y, &pool[source]);
            if (strcmp(va, vb)) oracle_fail("copy-not-equal dst=[%.80s] src=[%.80s]", va, vb);
        }
        puts(out);
        fputs(g_orc, stdout);
        fflush(stdout);
    }
    reset_case();
    fflush(stdout);
    return 0;
}
