/* h_simcam_conc -- the real simulated camera (simulated.camera.c + HAL camera.c)
 * on the deterministic scheduler (harness/detsched), for property C18.
 *
 * stdin: one case per line
 *     case <id> A=<op,op,..> B=<op,op,..|-> sched=<t,t,..|-> [policy=fair|sticky|lowest] [dfs=1]
 * ops: on off (camera_set with the software frame trigger enabled / disabled), start, stop,
 *      trig (camera_execute_trigger), get (camera_get_frame).
 * Thread A is the main thread (tid 0) and runs script A; if script B is not "-" A first creates
 * thread B (tid 1) and joins it at the end.  Every streamer thread the camera creates has role S.
 * `start` is ill-formed (skipped identically by the model) unless the HAL state is not Running
 * and the other caller is between two calls.
 *
 * stdout per case:
 *     case <id>
 *     <step> <role> <kind>.<obj> | <shared fields> | A=<pending> B=<pending> S=<pending>     (one per scheduler step)
 *     r <role> <op> <result>                                                             (when a call returns)
 *     ORACLE <kind> ...                                                                  (property oracle, implementation only)
 *     DS-DECISION ...                                                                    (dfs=1)
 *     end <steps> | <shared fields> | ... ; DETSCHED-SCHEDULE t,t,..
 * A terminal result of the scheduler (DEADLOCK / HANG / STEP-LIMIT / MISUSE) ends the process
 * after `ORACLE <kind> ...` and the DETSCHED lines.
 */
#define _GNU_SOURCE
#include "detsched.h"

#include "simcams/simulated.camera.c" /* the real code, included to read its private fields */

#include "device/hal/camera.h"

/* ----------------------------------------------------------- link-time stubs */
void
aq_logger(int is_error, const char* file, int line, const char* function, const char* fmt, ...)
{
    (void)is_error, (void)file, (void)line, (void)function, (void)fmt;
}

/* only camera_open() needs these; it is not used here */
struct Driver;
struct DeviceManager;
struct DeviceIdentifier;
enum DeviceStatusCode
driver_open_device(struct Driver* self, uint64_t device_id, struct Device** out)
{
    (void)self, (void)device_id, (void)out;
    return Device_Err;
}
struct Driver*
device_manager_get_driver(const struct DeviceManager* self, const struct DeviceIdentifier* identifier)
{
    (void)self, (void)identifier;
    return 0;
}

/* ------------------------------------------------------------------- state */
enum Op
{
    OP_ON,
    OP_OFF,
    OP_START,
    OP_STOP,
    OP_TRIG,
    OP_GET,
    OP_GETSMALL, /* camera_get_frame with a buffer that is too small: the camera refuses, the HAL stops it (C17 threads part only) */
    OP_CLOSE, /* the driver's close on a camera in whatever state (C17: it stops the streamer itself); last op of script A, no script B */
    OP_COUNT
};
static const char* const op_names[OP_COUNT] = { "on", "off", "start", "stop", "trig", "get", "getsmall", "close" };


static int g_closed; /* the camera object is gone */
#define MAXOPS 64
static struct
{
    int ops[2][MAXOPS];
    int nops[2];
    int has_b;
    volatile int inflight[2]; /* harness-level: caller is inside a call */
    int cur_op[2];
    struct Camera* cam;
    struct SimulatedCamera* sim;
    struct thread thread_b;
    /* oracle bookkeeping (what a client of the API can see) */
    int run;                 /* starts issued so far */
    int gated;               /* trigger was enabled at the last start and no `off` was issued since */
    long trig_begun;         /* triggers handed to a Running camera since the last start */
    long delivered;          /* frames delivered since the last start */
    long long last_id;       /* last delivered id since the last start, -1 if none */
    int oracle_failures;
    int stops_returned;      /* camera_stop calls that returned */
    int stops_at_get[2];     /* value of stops_returned when the caller's frame call began */
    int dfs;
} H;

static char
role_of(int tid)
{
    if (tid == 0)
        return 'A';
    if (tid == 1 && H.has_b)
        return 'B';
    return 'S';
}

static const char*
obj_name(int kind, int obj)
{
    if (obj < 0)
        return "-";
    if (g_closed)
        return "?";
    switch (kind) {
        case DS_LOCK:
        case DS_TRYLOCK:
        case DS_RELEASED:
            return obj == detsched_ordinal(&H.sim->im.lock) ? "L" : "L?";
        case DS_WAIT:
        case DS_REACQ:
        case DS_NOTIFY:
            if (obj == detsched_ordinal(&H.sim->software_trigger.trigger_ready))
                return "T";
            if (obj == detsched_ordinal(&H.sim->im.frame_ready))
                return "F";
            return "C?";
        case DS_CREATE:
        case DS_JOIN:
            if (obj == detsched_ordinal(&H.sim->streamer.thread))
                return "S";
            if (obj == detsched_ordinal(&H.thread_b))
                return "B";
            return "T?";
        default:
            return "?";
    }
}

static char
state_letter(enum DeviceState s)
{
    switch (s) {
        case DeviceState_AwaitingConfiguration:
            return 'W';
        case DeviceState_Armed:
            return 'A';
        case DeviceState_Running:
            return 'R';
        default:
            return 'C';
    }
}

static void
pending_str(int tid, char* buf, size_t n)
{
    int obj = -1, en = 0;
    int kind = detsched_thread_pending(tid, &obj, &en);
    if (kind < 0)
        snprintf(buf, n, "fin");
    else
        snprintf(buf, n, "%s.%s%s", detsched_kind_name(kind), kind == DS_YIELD ? "op" : obj_name(kind, obj), en ? "+" : "-");
}

static int
latest_streamer(void)
{
    int n = detsched_thread_count();
    int first = H.has_b ? 2 : 1;
    return n > first ? n - 1 : -1;
}

static void
print_digest(void)
{
    if (g_closed) { printf("closed"); return; }
    struct SimulatedCamera* s = H.sim;
    int own = detsched_lock_owner(&s->im.lock);
    char a[32], b[32], st[32];
    pending_str(0, a, sizeof a);
    if (H.has_b && detsched_thread_count() > 1)
        pending_str(1, b, sizeof b);
    else
        snprintf(b, sizeof b, "-");
    int ls = latest_streamer();
    if (ls >= 0)
        pending_str(ls, st, sizeof st);
    else
        snprintf(st, sizeof st, "-");
    printf("ir=%d en=%d tg=%d fw=%d fid=%lld last=%lld st=%c own=%c | A=%s B=%s S=%s",
           s->streamer.is_running,
           (int)s->properties.input_triggers.frame_start.enable,
           s->software_trigger.triggered,
           (int)s->im.frame_wanted,
           (long long)s->im.frame_id,
           (long long)s->im.last_emitted_frame_id,
           state_letter(H.cam->state),
           own < 0 ? '-' : role_of(own),
           a,
           b,
           st);
}

static uint64_t
digest(void* ctx)
{
    (void)ctx;
    if (g_closed) return 1;
    struct SimulatedCamera* s = H.sim;
    uint64_t d = 1469598103934665603ull;
    uint64_t v[] = { (uint64_t)s->streamer.is_running, (uint64_t)s->properties.input_triggers.frame_start.enable,
                     (uint64_t)s->software_trigger.triggered, (uint64_t)s->im.frame_wanted, (uint64_t)s->im.frame_id,
                     (uint64_t)s->im.last_emitted_frame_id, (uint64_t)H.cam->state, (uint64_t)H.cur_op[0], (uint64_t)H.cur_op[1],
                     (uint64_t)H.inflight[0], (uint64_t)H.inflight[1] };
    for (size_t i = 0; i < sizeof v / sizeof *v; ++i)
        d = (d ^ v[i]) * 1099511628211ull;
    return d;
}

static void
on_event(void* ctx, const struct detsched_event* ev)
{
    (void)ctx;
    if (H.dfs) {
        printf("DS-DECISION step=%llu prev=%d prevkind=%s chosen=%d enabled=", (unsigned long long)ev->step, ev->prev,
               ev->prev_kind < 0 ? "-" : detsched_kind_name(ev->prev_kind), ev->tid);
        int first = 1;
        for (int i = 0; i < DETSCHED_MAX_THREADS; ++i)
            if (ev->enabled_mask & (1ull << i)) {
                printf("%s%d", first ? "" : ",", i);
                first = 0;
            }
        printf("\n");
    }
    printf("%llu %c %s.%s | ",
           (unsigned long long)ev->step,
           role_of(ev->tid),
           detsched_kind_name(ev->kind),
           ev->kind == DS_YIELD ? ev->label : obj_name(ev->kind, ev->obj));
    print_digest();
    printf("\n");
}

static void
on_terminal(void* ctx, int code)
{
    (void)ctx;
    const char* what = code == DETSCHED_EXIT_DEADLOCK ? "deadlock" : code == DETSCHED_EXIT_HANG ? "hang" : code == DETSCHED_EXIT_STEP_LIMIT ? "step-limit" : "misuse";
    size_t n = 0;
    detsched_decisions(&n);
    printf("%s %zu | ", what, n);
    print_digest();
    printf("\n");
    /* which calls never returned */
    const char* a = H.inflight[0] ? op_names[H.cur_op[0]] : "-";
    const char* b = H.inflight[1] ? op_names[H.cur_op[1]] : "-";
    int stop_pending = 0, get_after_stop = 0, other = 0;
    for (int w = 0; w < 2; ++w) {
        if (!H.inflight[w])
            continue;
        if (H.cur_op[w] == OP_STOP)
            stop_pending = 1;
        else if (H.cur_op[w] == OP_GET) {
            /* a frame call that began in a run whose stop has returned since */
            if (H.stops_returned > H.stops_at_get[w])
                get_after_stop = 1;
        } else
            other = 1;
    }
    if (code == DETSCHED_EXIT_STEP_LIMIT)
        printf("NOTE step-limit A=%s B=%s\n", a, b);
    else if (code == DETSCHED_EXIT_MISUSE)
        printf("ORACLE misuse-of-synchronisation %s A=%s B=%s\n", what, a, b);
    else if (stop_pending)
        printf("ORACLE stop-does-not-return %s A=%s B=%s\n", what, a, b);
    else if (get_after_stop)
        printf("ORACLE frame-call-not-unblocked-by-stop %s A=%s B=%s\n", what, a, b);
    else if (other)
        printf("ORACLE call-does-not-return %s A=%s B=%s\n", what, a, b);
    else
        /* a frame call waiting for a frame nobody triggers and no stop: not a violation of the property */
        printf("NOTE frame-call-blocked-without-stop %s A=%s B=%s en=%d\n", what, a, b,
               g_closed ? -1 : (int)H.sim->properties.input_triggers.frame_start.enable);
}

/* ------------------------------------------------------------------ oracle */
static void
oracle_fail(const char* kind, const char* fmt, ...)
{
    va_list ap;
    ++H.oracle_failures;
    printf("ORACLE %s ", kind);
    va_start(ap, fmt);
    vprintf(fmt, ap);
    va_end(ap);
    printf("\n");
}

/* ------------------------------------------------------------------- calls */
#define NO_FRAME 0x7fffffffffffff01ull

static void
do_op(int who, int op)
{
    const char r = who ? 'B' : 'A';
    struct CameraProperties props;
    switch (op) {
        case OP_ON:
        case OP_OFF: {
            camera_get(H.cam, &props);
            props.input_triggers.frame_start.enable = (op == OP_ON);
            if (op == OP_OFF)
                H.gated = 0;
            enum DeviceStatusCode e = camera_set(H.cam, &props);
            printf("r %c %s %s\n", r, op_names[op], e == Device_Ok ? "ok" : "err");
        } break;
        case OP_START: {
            if (camera_get_state(H.cam) == DeviceState_Running || H.inflight[1 - who]) {
                printf("r %c start illformed\n", r);
                break;
            }
            camera_get(H.cam, &props);
            ++H.run;
            H.gated = props.input_triggers.frame_start.enable != 0;
            H.trig_begun = 0;
            H.delivered = 0;
            H.last_id = -1;
            enum DeviceStatusCode e = camera_start(H.cam);
            printf("r %c start %s\n", r, e == Device_Ok ? "ok" : "err");
        } break;
        case OP_STOP: {
            enum DeviceStatusCode e = camera_stop(H.cam);
            ++H.stops_returned;
            printf("r %c stop %s\n", r, e == Device_Ok ? "ok" : "err");
        } break;
        case OP_TRIG: {
            if (camera_get_state(H.cam) == DeviceState_Running)
                ++H.trig_begun;
            enum DeviceStatusCode e = camera_execute_trigger(H.cam);
            printf("r %c trig %s\n", r, e == Device_Ok ? "ok" : "err");
        } break;
        case OP_GETSMALL: {
            uint8_t buf[8];
            size_t nbytes = sizeof buf;
            struct ImageInfo info;
            memset(&info, 0, sizeof info);
            enum DeviceStatusCode e = camera_get_frame(H.cam, buf, &nbytes, &info);
            printf("r %c getsmall %s\n", r, e == Device_Ok ? "ok" : "err");
            /* a camera the HAL reports as not running has no streamer thread left (the HAL stops a camera whose frame call failed) */
            if (camera_get_state(H.cam) != DeviceState_Running && !H.inflight[1 - who]) {
                int first = H.has_b ? 2 : 1, live = 0;
                for (int t = first; t < detsched_thread_count(); ++t) { int o = 0, en = 0; if (detsched_thread_pending(t, &o, &en) >= 0) ++live; }
                if (live) oracle_fail("streamer-alive-although-the-camera-is-reported-stopped", "live=%d", live);
            }
        } break;
        case OP_CLOSE: {
            enum DeviceStatusCode e = simcam_close_camera(H.cam);
            g_closed = 1;
            printf("r %c close %s\n", r, e == Device_Ok ? "ok" : "err");
        } break;
        case OP_GET: {
            uint8_t buf[256];
            size_t nbytes = sizeof buf;
            struct ImageInfo info;
            memset(&info, 0, sizeof info);
            info.hardware_frame_id = NO_FRAME;
            const int run_at_call = H.run;
            H.stops_at_get[who] = H.stops_returned;
            enum DeviceStatusCode e = camera_get_frame(H.cam, buf, &nbytes, &info);
            if (e != Device_Ok) {
                printf("r %c get err\n", r);
            } else if (info.hardware_frame_id == NO_FRAME) {
                printf("r %c get noframe\n", r);
            } else {
                const long long id = (long long)info.hardware_frame_id;
                printf("r %c get frame %lld\n", r, id);
                /* the property, as seen by a client */
                if (run_at_call != H.run)
                    oracle_fail("frame-call-spans-restart", "run %d -> %d", run_at_call, H.run);
                if (id < 0)
                    oracle_fail("negative-frame-id", "id=%lld", id);
                if (id <= H.last_id)
                    oracle_fail("frame-id-not-increasing", "run=%d previous=%lld now=%lld", H.run, H.last_id, id);
                H.last_id = id;
                ++H.delivered;
                if (H.gated && H.delivered > H.trig_begun)
                    oracle_fail("frame-without-trigger", "run=%d delivered=%ld triggers=%ld id=%lld", H.run, H.delivered, H.trig_begun, id);
                else if (H.gated && id + 1 > H.trig_begun)
                    oracle_fail("more-frames-generated-than-triggers", "run=%d id=%lld triggers=%ld", H.run, id, H.trig_begun);
            }
        } break;
    }
}

static void
run_script(int who)
{
    for (int i = 0; i < H.nops[who]; ++i) {
        detsched_yield("op");
        H.cur_op[who] = H.ops[who][i];
        H.inflight[who] = 1;
        do_op(who, H.ops[who][i]);
        H.inflight[who] = 0;
    }
}

static void
body_b(void* arg)
{
    (void)arg;
    run_script(1);
}

static void
body_a(void* arg)
{
    (void)arg;
    if (H.has_b)
        thread_create(&H.thread_b, body_b, 0);
    run_script(0);
    if (H.has_b)
        thread_join(&H.thread_b);
}

/* ------------------------------------------------------------------- cases */
static int
parse_ops(const char* text, int* ops)
{
    int n = 0;
    if (!strcmp(text, "-") || !*text)
        return 0;
    char* copy = strdup(text);
    for (char* tok = strtok(copy, ","); tok && n < MAXOPS; tok = strtok(0, ",")) {
        int k = -1;
        for (int i = 0; i < OP_COUNT; ++i)
            if (!strcmp(tok, op_names[i]))
                k = i;
        if (k < 0) {
            free(copy);
            return -1;
        }
        ops[n++] = k;
    }
    free(copy);
    return n;
}

static int
run_case(char* line)
{
    char id[64] = "", a[512] = "-", b[512] = "-", sched[8192] = "-", policy[32] = "fair";
    int dfs = 0, kind = BasicDevice_Camera_Empty, binning = 1;
    long limit = 4000;
    g_closed = 0;
    for (char* tok = strtok(line, " \t\n"); tok; tok = strtok(0, " \t\n")) {
        if (!strcmp(tok, "case"))
            continue;
        if (!strncmp(tok, "A=", 2))
            snprintf(a, sizeof a, "%s", tok + 2);
        else if (!strncmp(tok, "B=", 2))
            snprintf(b, sizeof b, "%s", tok + 2);
        else if (!strncmp(tok, "sched=", 6))
            snprintf(sched, sizeof sched, "%s", tok + 6);
        else if (!strncmp(tok, "policy=", 7))
            snprintf(policy, sizeof policy, "%s", tok + 7);
        else if (!strncmp(tok, "dfs=", 4))
            dfs = atoi(tok + 4);
        else if (!strncmp(tok, "limit=", 6))
            limit = atol(tok + 6);
        else if (!strncmp(tok, "kind=", 5))
            kind = !strcmp(tok + 5, "random") ? BasicDevice_Camera_Random : !strcmp(tok + 5, "sin") ? BasicDevice_Camera_Sin : BasicDevice_Camera_Empty;
        else if (!strncmp(tok, "bin=", 4))
            binning = atoi(tok + 4);
        else if (!id[0])
            snprintf(id, sizeof id, "%s", tok);
    }
    memset(&H, 0, sizeof H);
    H.dfs = dfs;
    H.last_id = -1;
    H.nops[0] = parse_ops(a, H.ops[0]);
    H.nops[1] = parse_ops(b, H.ops[1]);
    if (H.nops[0] < 0 || H.nops[1] < 0) {
        printf("case %s\nbad-case\n", id);
        return 0;
    }
    H.has_b = strcmp(b, "-") != 0;

    struct detsched_config cfg;
    detsched_config_default(&cfg);
    int* s = 0;
    cfg.mode = DETSCHED_EXPLICIT;
    cfg.default_policy = !strcmp(policy, "lowest") ? DETSCHED_LOWEST : !strcmp(policy, "sticky") ? DETSCHED_STICKY : DETSCHED_FAIR;
    cfg.nschedule = strcmp(sched, "-") ? detsched_parse_schedule(sched, &s) : 0;
    cfg.schedule = s;
    cfg.step_limit = (size_t)limit;
    cfg.hang_rounds = 6;
    cfg.digest = digest;
    cfg.on_event = on_event;
    cfg.on_terminal = on_terminal;
    detsched_init(&cfg);

    H.cam = simcam_make_camera((enum BasicDeviceKind)kind);
    H.sim = containerof(H.cam, struct SimulatedCamera, camera);
    thread_init(&H.thread_b);
    {
        /* initial configuration, outside the scheduler: 8x8 u8, trigger disabled */
        struct CameraProperties props;
        camera_get(H.cam, &props);
        props.shape.x = 8;
        props.shape.y = 8;
        props.pixel_type = SampleType_u8;
        props.binning = (uint8_t)binning;
        props.exposure_time_us = 1000;
        camera_set(H.cam, &props);
    }
    printf("case %s\n", id);
    detsched_run_main(body_a, 0);
    printf("end %zu | ", (size_t)0 + ({ size_t n; detsched_decisions(&n); n; }));
    print_digest();
    printf("\n");
    detsched_print_schedule(stdout);
    printf("deviations %zu\n", detsched_deviations());
    if (!g_closed) {
        free(H.sim->im.frame_data);
        free(H.sim->im.render_data);
        free(H.sim);
    }
    free(s);
    return 0;
}

int
main(void)
{
    char* line = 0;
    size_t cap = 0;
    setvbuf(stdout, 0, _IOFBF, 1 << 16);
    while (getline(&line, &cap, stdin) > 0) {
        if (line[0] == '#' || line[0] == '\n')
            continue;
        run_case(line);
        fflush(stdout);
    }
    free(line);
    return 0;
}
