/* Self-test of detsched.  Build (from /verif):
 *   gcc -std=gnu11 -O1 -g -fsanitize=address,undefined -fno-sanitize-recover=all \
 *       -I$ACQ_REPO/acquire-core-libs/src/acquire-core-platform/linux -Iharness/detsched \
 *       harness/detsched/detsched.c harness/detsched/selftest.c -o .build/detsched_selftest -lpthread -ldl
 *   .build/detsched_selftest all
 * A terminal result ends the process, so every scenario runs in a child
 * (`selftest <scenario> <mode> <arg>`), and `all` inspects exit codes / output.
 */
#define _GNU_SOURCE
#include "platform.h"
#include "detsched.h"

#include <stdio.h>
#include <stdlib.h>
#include <string.h>
#include <sys/wait.h>
#include <unistd.h>

/* ---------------------------------------------------------------- scenarios */

static struct lock L;
static struct condition_variable CV;
static struct event EV;
static struct thread T1, T2;
static volatile int counter, flag, polls;

static void
inc_body(void* arg)
{
    int n = (int)(intptr_t)arg;
    for (int i = 0; i < n; ++i) {
        lock_acquire(&L);
        int c = counter; /* a read-modify-write that would lose updates without the lock */
        detsched_yield("in-critical-section");
        counter = c + 1;
        lock_release(&L);
    }
}

static void
sc_counter(void* arg)
{
    (void)arg;
    lock_init(&L);
    thread_init(&T1);
    thread_init(&T2);
    thread_create(&T1, inc_body, (void*)(intptr_t)5);
    thread_create(&T2, inc_body, (void*)(intptr_t)5);
    thread_join(&T1);
    thread_join(&T2);
    printf("counter=%d\n", counter);
}

/* lost wake-up toy: the setter stores the flag WITHOUT the lock */
static void
waiter_body(void* arg)
{
    (void)arg;
    lock_acquire(&L);
    while (!flag)
        condition_variable_wait(&CV, &L);
    lock_release(&L);
}

static void
setter_body(void* arg)
{
    int with_lock = (int)(intptr_t)arg;
    if (with_lock)
        lock_acquire(&L);
    flag = 1;
    condition_variable_notify_all(&CV);
    if (with_lock)
        lock_release(&L);
}

static int toy_with_lock;

static void
sc_toy(void* arg)
{
    (void)arg;
    lock_init(&L);
    condition_variable_init(&CV);
    thread_init(&T1);
    thread_init(&T2);
    thread_create(&T1, waiter_body, 0);
    thread_create(&T2, setter_body, (void*)(intptr_t)toy_with_lock);
    thread_join(&T1);
    thread_join(&T2);
    printf("toy done\n");
}

/* HANG: one thread sleeps on a condition nobody signals, another polls */
static void
poller_body(void* arg)
{
    (void)arg;
    for (;;) {
        ++polls;
        clock_sleep_ms(0, 1.0f);
    }
}

static void
sc_hang(void* arg)
{
    (void)arg;
    lock_init(&L);
    condition_variable_init(&CV);
    thread_init(&T1);
    thread_init(&T2);
    thread_create(&T1, waiter_body, 0);
    thread_create(&T2, poller_body, 0);
    thread_join(&T1);
}

/* events, trylock, virtual time */
static void
ev_body(void* arg)
{
    (void)arg;
    event_wait(&EV);
    printf("event received\n");
}

static void
sc_misc(void* arg)
{
    (void)arg;
    struct clock c;
    lock_init(&L);
    event_init(&EV);
    thread_init(&T1);
    thread_create(&T1, ev_body, 0);
    int a = try_lock_acquire(&L);
    int b = try_lock_acquire(&L);
    lock_release(&L);
    clock_init(&c);
    clock_sleep_ms(&c, 25.0f);
    double waited = clock_toc_ms(&c); /* the clock was reset by the sleep */
    uint64_t t = clock_tic(0);
    event_notify_all(&EV);
    thread_join(&T1);
    thread_join(&T1); /* second join: no-op */
    printf("trylock=%d,%d slept>=25ms:%d toc_after_sleep<1ms:%d\n", a, b, t >= 25000000ull, waited < 1.0);
}

static uint64_t
digest(void* ctx)
{
    (void)ctx;
    return (uint64_t)counter * 31u + (uint64_t)flag;
}

static int
child(const char* scenario, const char* mode, const char* arg)
{
    struct detsched_config cfg;
    detsched_config_default(&cfg);
    cfg.trace = stdout;
    cfg.digest = digest;
    int* sched = 0;
    if (!strcmp(mode, "random")) {
        cfg.mode = DETSCHED_RANDOM;
        cfg.seed = strtoull(arg, 0, 10);
    } else if (!strcmp(mode, "pct")) {
        cfg.mode = DETSCHED_PCT;
        cfg.seed = strtoull(arg, 0, 10);
        cfg.pct_depth = 3;
        cfg.pct_steps = 40;
    } else if (!strcmp(mode, "dfs")) {
        cfg.mode = DETSCHED_DFS;
        cfg.nschedule = detsched_parse_schedule(arg, &sched);
        cfg.schedule = sched;
    } else {
        cfg.mode = DETSCHED_EXPLICIT;
        cfg.nschedule = detsched_parse_schedule(arg, &sched);
        cfg.schedule = sched;
    }
    detsched_init(&cfg);
    void (*body)(void*) = 0;
    if (!strcmp(scenario, "counter"))
        body = sc_counter;
    else if (!strcmp(scenario, "toy"))
        body = sc_toy;
    else if (!strcmp(scenario, "toyfixed")) {
        body = sc_toy;
        toy_with_lock = 1;
    } else if (!strcmp(scenario, "hang"))
        body = sc_hang;
    else if (!strcmp(scenario, "misc"))
        body = sc_misc;
    else
        return 2;
    detsched_run_main(body, 0);
    detsched_print_schedule(stdout);
    printf("deviations=%zu\n", detsched_deviations());
    free(sched);
    return 0;
}

/* ------------------------------------------------------------------ driver */

static char* self_path;

/* run a child, capture stdout into *out (malloc'ed), return exit status */
static int
run_child(const char* scenario, const char* mode, const char* arg, char** out)
{
    int fd[2];
    if (pipe(fd))
        exit(3);
    fflush(stdout);
    pid_t pid = fork();
    if (pid == 0) {
        dup2(fd[1], 1);
        close(fd[0]);
        close(fd[1]);
        alarm(20); /* watchdog */
        execl(self_path, self_path, scenario, mode, arg, (char*)0);
        _exit(99);
    }
    close(fd[1]);
    size_t cap = 1 << 16, n = 0;
    char* buf = (char*)malloc(cap);
    for (;;) {
        if (n + 4096 > cap)
            buf = (char*)realloc(buf, cap *= 2);
        ssize_t k = read(fd[0], buf + n, 4096);
        if (k <= 0)
            break;
        n += (size_t)k;
    }
    buf[n] = 0;
    close(fd[0]);
    int st = 0;
    waitpid(pid, &st, 0);
    *out = buf;
    return WIFEXITED(st) ? WEXITSTATUS(st) : 1000 + WTERMSIG(st);
}

static int failures;
#define EXPECT(c, ...)                                                                             \
    do {                                                                                           \
        if (!(c)) {                                                                                \
            ++failures;                                                                            \
            printf("FAIL %s:%d: ", __FILE__, __LINE__);                                            \
            printf(__VA_ARGS__);                                                                   \
            printf("\n");                                                                          \
        }                                                                                          \
    } while (0)

/* the text after "DETSCHED-SCHEDULE " or after "schedule=" */
static char*
schedule_of(const char* out)
{
    const char* p = strstr(out, "DETSCHED-SCHEDULE ");
    if (p)
        p += strlen("DETSCHED-SCHEDULE ");
    else if ((p = strstr(out, " schedule=")))
        p += strlen(" schedule=");
    else
        return strdup("");
    size_t n = strcspn(p, " \n");
    return strndup(p, n);
}

/* trace without the DS-DECISION lines and the bookkeeping lines */
static char*
ds_lines(const char* out)
{
    char* r = (char*)calloc(strlen(out) + 1, 1);
    const char* p = out;
    while (*p) {
        const char* e = strchr(p, '\n');
        size_t n = e ? (size_t)(e - p + 1) : strlen(p);
        if (!strncmp(p, "DS ", 3) || !strncmp(p, "counter=", 8) || !strncmp(p, "toy", 3))
            strncat(r, p, n);
        p += n;
    }
    return r;
}

/* stateless DFS over all schedules of a scenario, driven through DS-DECISION lines */
static void
enumerate(const char* scenario, int* n_ok, int* n_deadlock, int* n_other, int* n_runs)
{
    size_t cap = 1024, n = 0;
    char** stack = (char**)malloc(cap * sizeof(char*));
    stack[n++] = strdup("");
    *n_ok = *n_deadlock = *n_other = *n_runs = 0;
    while (n) {
        char* prefix = stack[--n];
        size_t plen = 0;
        for (const char* q = prefix; *q; ++q)
            plen += (*q == ',');
        if (*prefix)
            ++plen;
        char* out = 0;
        int rc = run_child(scenario, "dfs", prefix, &out);
        ++*n_runs;
        if (rc == 0)
            ++*n_ok;
        else if (rc == DETSCHED_EXIT_DEADLOCK)
            ++*n_deadlock;
        else
            ++*n_other;
        /* decisions of this run */
        int dec[512], ndec = 0;
        const char* p = out;
        while ((p = strstr(p, "DS-DECISION step=")) && ndec < 512) {
            int step, prev, chosen;
            char en[256], pk[32];
            if (sscanf(p, "DS-DECISION step=%d prev=%d prevkind=%31s chosen=%d enabled=%255s", &step, &prev, pk, &chosen, en) == 5) {
                dec[ndec] = chosen;
                if ((size_t)step >= plen) {
                    for (char* tok = strtok(en, ","); tok; tok = strtok(0, ",")) {
                        int alt = atoi(tok);
                        if (alt == chosen)
                            continue;
                        char* np = (char*)malloc(8 * (size_t)(ndec + 2));
                        np[0] = 0;
                        for (int i = 0; i < ndec; ++i)
                            sprintf(np + strlen(np), "%d,", dec[i]);
                        sprintf(np + strlen(np), "%d", alt);
                        if (n == cap)
                            stack = (char**)realloc(stack, (cap *= 2) * sizeof(char*));
                        stack[n++] = np;
                    }
                }
                ++ndec;
            }
            p += 10;
        }
        free(out);
        free(prefix);
        if (*n_runs > 20000)
            break;
    }
    free(stack);
}

static int
all(void)
{
    char *out = 0, *out2 = 0;
    int rc;

    /* 1. mutual exclusion: no lost update under any tried schedule */
    for (int seed = 1; seed <= 30; ++seed) {
        char s[32];
        snprintf(s, sizeof s, "%d", seed);
        rc = run_child("counter", seed % 2 ? "random" : "pct", s, &out);
        EXPECT(rc == 0 && strstr(out, "counter=10\n"), "counter seed %d rc=%d", seed, rc);
        free(out);
    }

    /* 2. replay determinism: random run -> its decision list -> explicit run, identical trace */
    rc = run_child("counter", "random", "7", &out);
    char* sched = schedule_of(out);
    rc = run_child("counter", "explicit", sched, &out2);
    char *a = ds_lines(out), *b = ds_lines(out2);
    EXPECT(rc == 0 && strlen(a) > 100 && !strcmp(a, b), "replay of a random run differs");
    EXPECT(strstr(out2, "deviations=0\n") != 0, "replay deviated");
    free(a);
    free(b);
    free(out);
    /* same seed twice */
    rc = run_child("counter", "random", "7", &out);
    a = ds_lines(out);
    b = ds_lines(out2);
    EXPECT(!strcmp(a, b), "same seed, different trace");
    free(a);
    free(b);
    free(out);
    free(out2);
    free(sched);

    /* 3. lost wake-up toy. main=0 creates waiter=1, setter=2.
       0:create 0:create 1:start(->lock) 1:lock(->wait entry) 2:start(flag=1 ->notify) 2:notify 1:wait ... DEADLOCK */
    rc = run_child("toy", "explicit", "0,0,1,1,2,2,1", &out);
    EXPECT(rc == DETSCHED_EXIT_DEADLOCK && strstr(out, "DETSCHED DEADLOCK"), "toy bad schedule rc=%d\n%s", rc, out);
    EXPECT(strstr(out, "DETSCHED-THREAD 1 blocked reacq"), "waiter should be asleep");
    free(out);
    /* waiter sleeps first, then the setter: fine */
    rc = run_child("toy", "explicit", "0,0,1,1,1,2,2", &out);
    EXPECT(rc == 0 && strstr(out, "toy done"), "toy good schedule rc=%d", rc);
    free(out);
    /* requested thread not runnable -> lowest runnable, deviation recorded */
    rc = run_child("toy", "explicit", "0,0,1,1,1,1,1", &out);
    EXPECT(rc == 0 && strstr(out, "!deviated") && !strstr(out, "deviations=0\n"), "deviation not recorded");
    free(out);

    /* 4. DFS helper: all schedules of the toy; some deadlock, some do not; none with the lock */
    int ok, dl, other, runs;
    enumerate("toy", &ok, &dl, &other, &runs);
    printf("toy: %d schedules, %d ok, %d deadlock, %d other\n", runs, ok, dl, other);
    EXPECT(ok > 0 && dl > 0 && other == 0, "toy enumeration");
    enumerate("toyfixed", &ok, &dl, &other, &runs);
    printf("toyfixed: %d schedules, %d ok, %d deadlock, %d other\n", runs, ok, dl, other);
    EXPECT(ok > 0 && dl == 0 && other == 0, "toyfixed enumeration");

    /* 5. HANG oracle: blocked waiter + polling thread, digest constant */
    rc = run_child("hang", "random", "3", &out);
    EXPECT(rc == DETSCHED_EXIT_HANG && strstr(out, "DETSCHED HANG"), "hang rc=%d", rc);
    free(out);

    /* 6. events, trylock, virtual clock */
    rc = run_child("misc", "random", "5", &out);
    EXPECT(rc == 0 && strstr(out, "event received") && strstr(out, "trylock=1,0 slept>=25ms:1 toc_after_sleep<1ms:1"),
           "misc rc=%d\n%s", rc, out);
    free(out);

    printf(failures ? "SELFTEST FAILED (%d)\n" : "SELFTEST OK\n", failures);
    return failures != 0;
}

int
main(int argc, char** argv)
{
    self_path = argv[0];
    if (argc >= 2 && !strcmp(argv[1], "all"))
        return all();
    if (argc >= 4)
        return child(argv[1], argv[2], argv[3]);
    fprintf(stderr, "usage: %s all | <counter|toy|toyfixed|hang|misc> <explicit|dfs|random|pct> <schedule|seed>\n", argv[0]);
    return 2;
}
