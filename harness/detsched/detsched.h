/* detsched -- deterministic scheduler behind the repo's platform API.
 *
 * detsched.c is an ALTERNATIVE IMPLEMENTATION of
 *   <repo>/acquire-core-libs/src/acquire-core-platform/linux/platform.h
 * (the header is used unchanged; detsched.c is linked INSTEAD of linux/platform.c).
 * Threads are real pthreads, but only the holder of a global baton runs.  Every
 * synchronisation call is a yield point: the caller parks with a pending
 * operation, the scheduler picks the next thread whose pending operation is
 * enabled, the baton moves, the chosen thread performs its pending operation and
 * runs alone until its next yield point.  See README.md.
 */
#ifndef H_VERIF_DETSCHED
#define H_VERIF_DETSCHED

#include <stddef.h>
#include <stdint.h>
#include <stdio.h>

#ifdef __cplusplus
extern "C"
{
#endif

#define DETSCHED_MAX_THREADS 64

    /* scheduling modes */
    enum detsched_mode
    {
        DETSCHED_EXPLICIT = 0, /* follow `schedule`; afterwards `default_policy` */
        DETSCHED_RANDOM = 1,   /* uniform among enabled threads, PRNG(seed)     */
        DETSCHED_PCT = 2,      /* PCT priorities with `pct_depth` change points */
        DETSCHED_DFS = 3,      /* = EXPLICIT with the prefix in `schedule`, and a
                                  DS-DECISION line (enabled set) for every
                                  decision point is written to `trace`          */
    };

    /* what to run when the explicit schedule is exhausted (or deviates) */
    enum detsched_default_policy
    {
        DETSCHED_LOWEST = 0, /* lowest enabled tid */
        DETSCHED_STICKY = 1, /* keep the thread that ran last while it is
                                enabled, else the lowest enabled tid (a
                                continuation without pre-emptions) */
        DETSCHED_FAIR = 2,   /* like STICKY, but a thread that parked at a
                                voluntary yield (clock_sleep_ms, detsched_yield)
                                hands over to the next enabled tid in cyclic
                                order: still no pre-emption in the sense of
                                pre-emption bounding, and polling / free-running
                                loops cannot starve the other threads */
    };

    /* kinds of pending operation == kinds of event */
    enum detsched_kind
    {
        DS_START = 0,  /* first step of a created thread                         */
        DS_LOCK,       /* lock_acquire: enabled iff the lock is free             */
        DS_TRYLOCK,    /* try_lock_acquire: always enabled                       */
        DS_RELEASED,   /* after lock_release (only with yield_on_release)        */
        DS_WAIT,       /* condition_variable_wait entry, lock still held; the
                          step releases the lock and enqueues the thread         */
        DS_REACQ,      /* asleep on a condition variable; enabled iff notified
                          (or spuriously woken) and the lock is free             */
        DS_NOTIFY,     /* condition_variable_notify_all, before waking           */
        DS_EVWAIT,     /* event_wait: enabled iff the event is set               */
        DS_EVNOTIFY,   /* event_notify_all / event_set, before setting           */
        DS_CREATE,     /* thread_create, before creating                         */
        DS_JOIN,       /* thread_join: enabled iff not live or target finished   */
        DS_SLEEP,      /* clock_sleep_ms: pure yield, advances virtual time      */
        DS_YIELD,      /* detsched_yield(label)                                  */
        DS_EXIT,       /* main returned from its body; enabled iff all other
                          threads have finished                                  */
        DS_KIND_COUNT
    };

    /* terminal results; the process ends with _exit(code) after flushing */
    enum detsched_exit
    {
        DETSCHED_EXIT_DEADLOCK = 40,   /* nothing enabled, some thread unfinished */
        DETSCHED_EXIT_HANG = 41,       /* a thread is blocked and the state digest did
                                          not change for K full rounds              */
        DETSCHED_EXIT_STEP_LIMIT = 42, /* more than step_limit decisions            */
        DETSCHED_EXIT_MISUSE = 43,     /* release of a lock not owned, wait without
                                          the lock, call from an unmanaged thread,
                                          too many threads/objects                  */
    };

    struct detsched_event
    {
        uint64_t step;         /* decision index, from 0                                */
        int tid;               /* thread chosen to run                                  */
        int kind;              /* its pending operation (enum detsched_kind)            */
        int obj;               /* ordinal of the object (per object type), -1 if none   */
        const char* label;     /* label of detsched_yield, else ""                      */
        uint64_t enabled_mask; /* bit t set iff thread t was enabled at this decision   */
        int prev;              /* thread that ran the previous step (-1 at step 0)      */
        int prev_kind;         /* pending operation prev is parked at now, -1 if it
                                  finished (DS_SLEEP / DS_YIELD: switching away from
                                  it is not a pre-emption)                              */
        int requested;         /* tid the explicit schedule asked for, -1 if none       */
        int deviated;          /* 1 iff requested was not enabled and another was taken */
        uint64_t vtime_ns;     /* virtual time                                          */
    };

    struct detsched_config
    {
        int mode;              /* enum detsched_mode                                */
        int default_policy;    /* enum detsched_default_policy                      */
        const int* schedule;   /* EXPLICIT/DFS: tid per decision. An entry -(t+1)
                                  is not a decision: it spuriously wakes thread t
                                  (if it sleeps on a condition variable).           */
        size_t nschedule;
        uint64_t seed;         /* RANDOM / PCT                                      */
        int pct_depth;         /* PCT: bug depth d (d-1 priority change points)     */
        size_t pct_steps;      /* PCT: estimated number of steps k (default 200)    */
        int spurious_permille; /* RANDOM/PCT: chance per decision of one spurious
                                  wake-up of a sleeping waiter (default 0)          */
        size_t step_limit;     /* default 100000                                    */
        int hang_rounds;       /* K of the HANG oracle (default 8; 0 = off)         */
        int yield_on_release;  /* 1: lock_release is a yield point as well          */
        /* state digest for the HANG oracle (may be NULL: HANG oracle off) */
        uint64_t (*digest)(void* ctx);
        void* digest_ctx;
        /* called at every decision, before the chosen thread runs; all threads
           are parked, so the callback may read any shared state */
        void (*on_event)(void* ctx, const struct detsched_event* ev);
        void* event_ctx;
        /* called once before a terminal result ends the process */
        void (*on_terminal)(void* ctx, int exit_code);
        void* terminal_ctx;
        FILE* trace;           /* if non-NULL: one line per decision
                                  "DS <step> <tid> <kind> <obj>[ <label>]"; in DFS
                                  mode additionally "DS-DECISION step=.. prev=..
                                  prevkind=.. chosen=.. enabled=a,b,c"                          */
    };

    /* Fill *cfg with defaults (EXPLICIT, empty schedule, LOWEST). */
    void detsched_config_default(struct detsched_config* cfg);

    /* Parse "0,1,1,2" / "0 1 1 2" into a malloc'ed array; returns count. */
    size_t detsched_parse_schedule(const char* text, int** out);

    /* Install the configuration. Call once, before detsched_run_main. */
    void detsched_init(const struct detsched_config* cfg);

    /* Register the calling thread as tid 0, run body(arg) under the scheduler,
       then keep scheduling until every created thread has finished.  Returns 0.
       Terminal results do not return: they print
         DETSCHED <DEADLOCK|HANG|STEP-LIMIT|MISUSE> steps=<n> schedule=<t,t,...>
       and one "DETSCHED-THREAD <tid> <state> <kind> <obj>" line per thread on
       stdout, flush, and _exit(code). */
    int detsched_run_main(void (*body)(void*), void* arg);

    /* Extra yield point for harness code and mock drivers (no-op outside
       detsched_run_main). */
    void detsched_yield(const char* label);

    /* tid of the calling thread (-1 if unmanaged) */
    int detsched_self(void);

    /* number of threads created so far, including main */
    int detsched_thread_count(void);

    /* The decisions taken so far (tid per step): feeding them back as an
       EXPLICIT schedule replays the run exactly. */
    const int* detsched_decisions(size_t* n);

    /* number of deviations from the explicit schedule so far */
    size_t detsched_deviations(void);

    /* print "DETSCHED-SCHEDULE t,t,t" to f */
    void detsched_print_schedule(FILE* f);

    /* virtual time in ns */
    uint64_t detsched_now_ns(void);

    /* ordinal of a registered lock / condition variable / event / thread
       object (-1 if unknown) */
    int detsched_ordinal(const void* object);

    /* tid of the thread holding `lock` (-1 if free/unknown) */
    int detsched_lock_owner(const void* lock);

    /* pending-operation kind / object / blocked flag of a thread, for digests:
       returns kind, or -1 if finished / unknown */
    int detsched_thread_pending(int tid, int* obj, int* enabled);

    const char* detsched_kind_name(int kind);

#ifdef __cplusplus
}
#endif

#endif
