/* detsched.c -- deterministic baton scheduler implementing the repo's platform.h.
 * Linked INSTEAD of acquire-core-platform/linux/platform.c.  See detsched.h / README.md.
 */
#define _GNU_SOURCE

#include "platform.h" /* the repo's header, unchanged */
#include "detsched.h"

#include <dlfcn.h>
#include <errno.h>
#include <fcntl.h>
#include <semaphore.h>
#include <stdio.h>
#include <stdlib.h>
#include <sys/file.h>
#include <unistd.h>

/* ------------------------------------------------------------------ state */

enum
{
    T_UNUSED = 0,
    T_PARKED,  /* has a pending operation, waits for the baton */
    T_RUNNING, /* holds the baton                              */
    T_FINISHED
};

enum
{
    O_LOCK = 1,
    O_CV,
    O_EVENT,
    O_THREAD
};

struct dobj
{
    const void* addr;
    int type;
    int ord;
    int owner; /* O_LOCK: tid of the holder or -1; O_THREAD: tid created through it or -1 */
};

struct dthread
{
    int state;
    int kind;         /* pending operation */
    const void* addr; /* object of the pending operation */
    int obj;          /* its ordinal */
    const char* label;
    const void* wait_lock; /* DS_REACQ: lock to re-acquire */
    int notified;          /* DS_REACQ: woken */
    int64_t prio;          /* PCT */
    uint64_t sleep_until;
    sem_t sem;
    void (*proc)(void*);
    void* arg;
};

#define NOBJ (1u << 13)

static struct
{
    struct detsched_config cfg;
    int configured;
    int active;
    int nthreads;
    struct dthread th[DETSCHED_MAX_THREADS];
    struct dobj objs[NOBJ];
    int nobj;
    int next_ord[5];
    /* decisions */
    int* decisions;
    size_t ndec, capdec;
    size_t sched_pos; /* next entry of cfg.schedule */
    size_t deviations;
    int prev; /* thread that ran the last step */
    uint64_t now_ns;
    uint64_t rng;
    /* PCT */
    size_t* change_points;
    int nchange;
    /* HANG oracle */
    uint64_t last_digest;
    int have_digest;
    uint64_t round_seen;
    int rounds_unchanged;
} ds;

static __thread int ds_tid = -1;

static const char* const kind_names[DS_KIND_COUNT] = {
    "start",  "lock",     "trylock", "released", "wait",  "reacq", "notify",
    "evwait", "evnotify", "create",  "join",     "sleep", "yield", "exit",
};

const char*
detsched_kind_name(int kind)
{
    return (kind >= 0 && kind < DS_KIND_COUNT) ? kind_names[kind] : "?";
}

static uint64_t
rng_next(void)
{
    /* splitmix64 */
    uint64_t z = (ds.rng += 0x9E3779B97F4A7C15ull);
    z = (z ^ (z >> 30)) * 0xBF58476D1CE4E5B9ull;
    z = (z ^ (z >> 27)) * 0x94D049BB133111EBull;
    return z ^ (z >> 31);
}

static void
ds_terminal(int code, const char* what, const char* detail);

/* ------------------------------------------------------------ object table */

static struct dobj*
obj_find(const void* addr)
{
    size_t h = ((uintptr_t)addr >> 3) * 0x9E3779B97F4A7C15ull >> 20;
    for (unsigned i = 0; i < NOBJ; ++i) {
        struct dobj* o = &ds.objs[(h + i) & (NOBJ - 1)];
        if (o->addr == addr)
            return o;
        if (!o->addr)
            return 0;
    }
    return 0;
}

static struct dobj*
obj_register(const void* addr, int type)
{
    struct dobj* o = obj_find(addr);
    if (!o) {
        if (ds.nobj >= (int)(NOBJ / 2))
            ds_terminal(DETSCHED_EXIT_MISUSE, "MISUSE", "too many synchronisation objects");
        size_t h = ((uintptr_t)addr >> 3) * 0x9E3779B97F4A7C15ull >> 20;
        for (unsigned i = 0; i < NOBJ; ++i) {
            o = &ds.objs[(h + i) & (NOBJ - 1)];
            if (!o->addr)
                break;
        }
        ++ds.nobj;
    }
    o->addr = addr;
    o->type = type;
    o->ord = ds.next_ord[type]++;
    o->owner = -1;
    return o;
}

/* object used without (or before) its init call: register on first use */
static struct dobj*
obj_get(const void* addr, int type)
{
    struct dobj* o = obj_find(addr);
    if (!o || o->type != type)
        o = obj_register(addr, type);
    return o;
}

int
detsched_ordinal(const void* object)
{
    struct dobj* o = obj_find(object);
    return o ? o->ord : -1;
}

int
detsched_lock_owner(const void* lock)
{
    struct dobj* o = obj_find(lock);
    return (o && o->type == O_LOCK) ? o->owner : -1;
}

/* --------------------------------------------------------------- scheduler */

void
detsched_config_default(struct detsched_config* cfg)
{
    memset(cfg, 0, sizeof(*cfg));
    cfg->mode = DETSCHED_EXPLICIT;
    cfg->default_policy = DETSCHED_LOWEST;
    cfg->pct_depth = 3;
    cfg->pct_steps = 200;
    cfg->step_limit = 100000;
    cfg->hang_rounds = 8;
}

size_t
detsched_parse_schedule(const char* text, int** out)
{
    size_t n = 0, cap = 64;
    int* a = (int*)malloc(cap * sizeof(int));
    const char* p = text ? text : "";
    while (*p) {
        while (*p == ',' || *p == ' ' || *p == '\t' || *p == '\n')
            ++p;
        if (!*p)
            break;
        char* e = 0;
        long v = strtol(p, &e, 10);
        if (e == p)
            break;
        if (n == cap)
            a = (int*)realloc(a, (cap *= 2) * sizeof(int));
        a[n++] = (int)v;
        p = e;
    }
    *out = a;
    return n;
}

void
detsched_init(const struct detsched_config* cfg)
{
    struct detsched_config c;
    if (cfg)
        c = *cfg;
    else
        detsched_config_default(&c);
    if (!c.step_limit)
        c.step_limit = 100000;
    if (!c.pct_steps)
        c.pct_steps = 200;
    if (c.pct_depth < 1)
        c.pct_depth = 1;
    /* full reset, so that several runs can follow each other in one process
       (every thread of the previous run has finished by then) */
    for (int t = 0; t < ds.nthreads; ++t)
        sem_destroy(&ds.th[t].sem);
    memset(ds.th, 0, sizeof(ds.th));
    memset(ds.objs, 0, sizeof(ds.objs));
    memset(ds.next_ord, 0, sizeof(ds.next_ord));
    ds.nobj = 0;
    ds.nthreads = 0;
    ds.now_ns = 0;
    ds.active = 0;
    free(ds.change_points);
    ds.change_points = 0;
    ds.nchange = 0;
    ds.cfg = c;
    ds.configured = 1;
    ds.rng = c.seed * 0x2545F4914F6CDD1Dull + 0x1234567ull;
    ds.prev = -1;
    ds.ndec = 0;
    ds.sched_pos = 0;
    ds.deviations = 0;
    ds.have_digest = 0;
    ds.rounds_unchanged = 0;
    ds.round_seen = 0;
    if (c.mode == DETSCHED_PCT) {
        ds.nchange = c.pct_depth - 1;
        ds.change_points = (size_t*)calloc((size_t)ds.nchange + 1, sizeof(size_t));
        for (int i = 0; i < ds.nchange; ++i)
            ds.change_points[i] = 1 + (size_t)(rng_next() % c.pct_steps);
    }
}

static int
op_enabled(int t)
{
    struct dthread* th = &ds.th[t];
    if (th->state != T_PARKED)
        return 0;
    switch (th->kind) {
        case DS_LOCK: {
            struct dobj* o = obj_find(th->addr);
            return !o || o->owner < 0;
        }
        case DS_REACQ: {
            struct dobj* o = obj_find(th->wait_lock);
            return th->notified && (!o || o->owner < 0);
        }
        case DS_EVWAIT:
            return ((const struct event*)th->addr)->state_ != 0;
        case DS_JOIN: {
            const struct thread* target = (const struct thread*)th->addr;
            if (!target->is_live_)
                return 1;
            struct dobj* o = obj_find(target);
            if (!o || o->owner < 0)
                return 1;
            return ds.th[o->owner].state == T_FINISHED;
        }
        case DS_EXIT:
            for (int i = 0; i < ds.nthreads; ++i)
                if (i != t && ds.th[i].state != T_FINISHED)
                    return 0;
            return 1;
        default:
            return 1;
    }
}

void
detsched_print_schedule(FILE* f)
{
    fprintf(f, "DETSCHED-SCHEDULE ");
    for (size_t i = 0; i < ds.ndec; ++i)
        fprintf(f, "%s%d", i ? "," : "", ds.decisions[i]);
    fprintf(f, "\n");
}

static void
ds_terminal(int code, const char* what, const char* detail)
{
    if (ds.cfg.on_terminal)
        ds.cfg.on_terminal(ds.cfg.terminal_ctx, code);
    printf("DETSCHED %s steps=%zu schedule=", what, ds.ndec);
    for (size_t i = 0; i < ds.ndec; ++i)
        printf("%s%d", i ? "," : "", ds.decisions[i]);
    if (detail && *detail)
        printf(" detail=%s", detail);
    printf("\n");
    for (int t = 0; t < ds.nthreads; ++t) {
        struct dthread* th = &ds.th[t];
        const char* st = th->state == T_FINISHED  ? "finished"
                         : th->state == T_RUNNING ? "running"
                         : op_enabled(t)          ? "enabled"
                                                  : "blocked";
        printf("DETSCHED-THREAD %d %s %s %d\n",
               t,
               st,
               th->state == T_FINISHED ? "-" : detsched_kind_name(th->kind),
               th->state == T_FINISHED ? -1 : th->obj);
    }
    fflush(stdout);
    fflush(stderr);
    _exit(code);
}

static void
record_decision(int t)
{
    if (ds.ndec == ds.capdec) {
        ds.capdec = ds.capdec ? 2 * ds.capdec : 256;
        ds.decisions = (int*)realloc(ds.decisions, ds.capdec * sizeof(int));
    }
    ds.decisions[ds.ndec++] = t;
}

static void
spurious_wake(int t)
{
    if (t >= 0 && t < ds.nthreads && ds.th[t].state == T_PARKED && ds.th[t].kind == DS_REACQ)
        ds.th[t].notified = 1;
}

static int
lowest(uint64_t mask)
{
    for (int t = 0; t < DETSCHED_MAX_THREADS; ++t)
        if (mask & (1ull << t))
            return t;
    return -1;
}

static int
default_choice(uint64_t mask)
{
    const int prev_ok = ds.prev >= 0 && (mask & (1ull << ds.prev));
    if (ds.cfg.default_policy == DETSCHED_STICKY && prev_ok)
        return ds.prev;
    if (ds.cfg.default_policy == DETSCHED_FAIR && ds.prev >= 0) {
        const int k = ds.th[ds.prev].kind;
        const int voluntary = ds.th[ds.prev].state == T_PARKED && (k == DS_SLEEP || k == DS_YIELD);
        if (prev_ok && !voluntary)
            return ds.prev;
        for (int i = 1; i <= DETSCHED_MAX_THREADS; ++i) {
            int t = (ds.prev + i) % DETSCHED_MAX_THREADS;
            if (mask & (1ull << t))
                return t;
        }
    }
    return lowest(mask);
}

/* one decision: returns the chosen tid (never returns on a terminal result) */
static int
decide(void)
{
    for (;;) {
        /* spurious wake-ups requested by the explicit schedule */
        int is_explicit = ds.cfg.mode == DETSCHED_EXPLICIT || ds.cfg.mode == DETSCHED_DFS;
        if (is_explicit) {
            while (ds.sched_pos < ds.cfg.nschedule && ds.cfg.schedule[ds.sched_pos] < 0) {
                spurious_wake(-ds.cfg.schedule[ds.sched_pos] - 1);
                ++ds.sched_pos;
            }
        } else if (ds.cfg.spurious_permille > 0 &&
                   (int)(rng_next() % 1000) < ds.cfg.spurious_permille) {
            int cand[DETSCHED_MAX_THREADS], n = 0;
            for (int t = 0; t < ds.nthreads; ++t)
                if (ds.th[t].state == T_PARKED && ds.th[t].kind == DS_REACQ && !ds.th[t].notified)
                    cand[n++] = t;
            if (n)
                spurious_wake(cand[rng_next() % (uint64_t)n]);
        }

        uint64_t mask = 0;
        int unfinished = 0, blocked = 0;
        for (int t = 0; t < ds.nthreads; ++t) {
            if (ds.th[t].state == T_FINISHED)
                continue;
            ++unfinished;
            if (op_enabled(t))
                mask |= 1ull << t;
            else
                ++blocked;
        }
        if (!mask) {
            if (!unfinished)
                ds_terminal(DETSCHED_EXIT_MISUSE, "MISUSE", "no thread left");
            ds_terminal(DETSCHED_EXIT_DEADLOCK, "DEADLOCK", "");
        }
        if (ds.ndec >= ds.cfg.step_limit)
            ds_terminal(DETSCHED_EXIT_STEP_LIMIT, "STEP-LIMIT", "");

        /* HANG oracle: a thread is blocked and the digest did not change for K
           full rounds (every enabled thread scheduled at least once per round) */
        if (ds.cfg.digest && ds.cfg.hang_rounds > 0) {
            uint64_t d = ds.cfg.digest(ds.cfg.digest_ctx);
            /* blocked/finished status of every thread is part of the digest */
            for (int t = 0; t < ds.nthreads; ++t) {
                uint64_t s = ds.th[t].state == T_FINISHED ? 1u : ((mask >> t) & 1u) ? 2u : 3u;
                d = (d ^ s) * 0x100000001B3ull + (uint64_t)t;
            }
            if (!ds.have_digest || d != ds.last_digest) {
                ds.have_digest = 1;
                ds.last_digest = d;
                ds.rounds_unchanged = 0;
                ds.round_seen = 0;
            } else if ((ds.round_seen & mask) == mask) {
                ++ds.rounds_unchanged;
                ds.round_seen = 0;
                if (blocked && ds.rounds_unchanged >= ds.cfg.hang_rounds)
                    ds_terminal(DETSCHED_EXIT_HANG, "HANG", "");
            }
        }

        int requested = -1, deviated = 0, t = -1;
        switch (ds.cfg.mode) {
            case DETSCHED_EXPLICIT:
            case DETSCHED_DFS:
                if (ds.sched_pos < ds.cfg.nschedule) {
                    requested = ds.cfg.schedule[ds.sched_pos++];
                    if (requested >= 0 && requested < DETSCHED_MAX_THREADS &&
                        (mask & (1ull << requested))) {
                        t = requested;
                    } else {
                        t = lowest(mask);
                        deviated = 1;
                        ++ds.deviations;
                    }
                } else {
                    t = default_choice(mask);
                }
                break;
            case DETSCHED_RANDOM: {
                int n = __builtin_popcountll(mask);
                int k = (int)(rng_next() % (uint64_t)n);
                for (int i = 0; i < DETSCHED_MAX_THREADS; ++i)
                    if ((mask & (1ull << i)) && k-- == 0) {
                        t = i;
                        break;
                    }
            } break;
            case DETSCHED_PCT: {
                for (int pass = 0; pass < 2; ++pass) {
                    t = -1;
                    for (int i = 0; i < ds.nthreads; ++i)
                        if ((mask & (1ull << i)) && (t < 0 || ds.th[i].prio > ds.th[t].prio))
                            t = i;
                    int changed = 0;
                    if (pass == 0)
                        for (int c = 0; c < ds.nchange; ++c)
                            if (ds.change_points[c] == ds.ndec + 1) {
                                ds.th[t].prio = ds.nchange - c; /* below every initial priority */
                                changed = 1;
                            }
                    if (!changed)
                        break;
                }
            } break;
            default:
                t = lowest(mask);
        }

        struct dthread* th = &ds.th[t];
        struct detsched_event ev = { .step = ds.ndec,
                                     .tid = t,
                                     .kind = th->kind,
                                     .obj = th->obj,
                                     .label = th->label ? th->label : "",
                                     .enabled_mask = mask,
                                     .prev = ds.prev,
                                     .prev_kind = (ds.prev >= 0 && ds.th[ds.prev].state == T_PARKED) ? ds.th[ds.prev].kind : -1,
                                     .requested = requested,
                                     .deviated = deviated,
                                     .vtime_ns = ds.now_ns };
        if (ds.cfg.trace) {
            if (ds.cfg.mode == DETSCHED_DFS) {
                fprintf(ds.cfg.trace,
                        "DS-DECISION step=%zu prev=%d prevkind=%s chosen=%d enabled=",
                        ds.ndec,
                        ds.prev,
                        ev.prev_kind < 0 ? "-" : detsched_kind_name(ev.prev_kind),
                        t);
                int first = 1;
                for (int i = 0; i < ds.nthreads; ++i)
                    if (mask & (1ull << i)) {
                        fprintf(ds.cfg.trace, "%s%d", first ? "" : ",", i);
                        first = 0;
                    }
                fprintf(ds.cfg.trace, "\n");
            }
            fprintf(ds.cfg.trace,
                    "DS %zu %d %s %d%s%s%s\n",
                    ds.ndec,
                    t,
                    detsched_kind_name(th->kind),
                    th->obj,
                    ev.label[0] ? " " : "",
                    ev.label,
                    deviated ? " !deviated" : "");
        }
        if (ds.cfg.on_event)
            ds.cfg.on_event(ds.cfg.event_ctx, &ev);
        record_decision(t);
        ds.round_seen |= 1ull << t;
        ds.prev = t;
        ds.now_ns += 1000;
        return t;
    }
}

static void
sem_wait_intr(sem_t* s)
{
    while (sem_wait(s) != 0 && errno == EINTR)
        ;
}

/* The calling thread (holding the baton) gives it up: `park` != 0 means it has
   set up a pending operation and wants to be resumed when chosen. */
static void
ds_switch(int me, int park)
{
    int t = decide();
    if (t == me) {
        ds.th[me].state = T_RUNNING;
        return;
    }
    ds.th[t].state = T_RUNNING;
    sem_post(&ds.th[t].sem);
    if (park)
        sem_wait_intr(&ds.th[me].sem);
}

static int
managed(void)
{
    if (!ds.active)
        return 0;
    if (ds_tid < 0 || ds.th[ds_tid].state != T_RUNNING) {
        ds_terminal(DETSCHED_EXIT_MISUSE, "MISUSE", "platform call from a thread that does not hold the baton");
    }
    return 1;
}

/* park the calling thread with a pending operation and resume when chosen */
static void
park(int kind, const void* addr, int obj, const char* label)
{
    int me = ds_tid;
    struct dthread* th = &ds.th[me];
    th->kind = kind;
    th->addr = addr;
    th->obj = obj;
    th->label = label;
    th->state = T_PARKED;
    ds_switch(me, 1);
}

static void*
trampoline(void* p)
{
    struct dthread* th = (struct dthread*)p;
    ds_tid = (int)(th - ds.th);
    sem_wait_intr(&th->sem);
    th->proc(th->arg);
    th->state = T_FINISHED;
    ds_switch(ds_tid, 0);
    return 0;
}

int
detsched_run_main(void (*body)(void*), void* arg)
{
    if (!ds.configured)
        detsched_init(0);
    memset(&ds.th[0], 0, sizeof(ds.th[0]));
    ds.nthreads = 1;
    ds.th[0].state = T_RUNNING;
    ds.th[0].prio = (int64_t)ds.cfg.pct_depth + (int64_t)(rng_next() % 1000000) * 64;
    sem_init(&ds.th[0].sem, 0, 0);
    ds_tid = 0;
    ds.active = 1;
    body(arg);
    park(DS_EXIT, 0, -1, 0);
    ds.active = 0;
    return 0;
}

void
detsched_yield(const char* label)
{
    if (!ds.active || ds_tid < 0)
        return;
    managed();
    park(DS_YIELD, 0, -1, label);
}

int
detsched_self(void)
{
    return ds_tid;
}

int
detsched_thread_count(void)
{
    return ds.nthreads;
}

const int*
detsched_decisions(size_t* n)
{
    if (n)
        *n = ds.ndec;
    return ds.decisions;
}

size_t
detsched_deviations(void)
{
    return ds.deviations;
}

uint64_t
detsched_now_ns(void)
{
    return ds.now_ns;
}

int
detsched_thread_pending(int tid, int* obj, int* enabled)
{
    if (tid < 0 || tid >= ds.nthreads || ds.th[tid].state == T_FINISHED ||
        ds.th[tid].state == T_UNUSED)
        return -1;
    if (obj)
        *obj = ds.th[tid].obj;
    if (enabled)
        *enabled = ds.th[tid].state == T_RUNNING ? 1 : op_enabled(tid);
    return ds.th[tid].kind;
}

/* ------------------------------------------------------- platform.h: locks */

void
lock_init(struct lock* self)
{
    memset(self, 0, sizeof(*self));
    obj_register(self, O_LOCK);
}

void
lock_acquire(struct lock* self)
{
    struct dobj* o = obj_get(self, O_LOCK);
    if (managed()) {
        park(DS_LOCK, self, o->ord, 0);
        o = obj_find(self);
        o->owner = ds_tid;
    } else {
        o->owner = 0;
    }
}

int
try_lock_acquire(struct lock* self)
{
    struct dobj* o = obj_get(self, O_LOCK);
    if (managed()) {
        park(DS_TRYLOCK, self, o->ord, 0);
        o = obj_find(self);
    }
    if (o->owner >= 0)
        return 0;
    o->owner = ds.active ? ds_tid : 0;
    return 1;
}

void
lock_release(struct lock* self)
{
    struct dobj* o = obj_get(self, O_LOCK);
    if (managed()) {
        if (o->owner != ds_tid)
            ds_terminal(DETSCHED_EXIT_MISUSE, "MISUSE", "lock_release of a lock the caller does not hold");
        o->owner = -1;
        if (ds.cfg.yield_on_release)
            park(DS_RELEASED, self, o->ord, 0);
    } else {
        o->owner = -1;
    }
}

void
condition_variable_init(struct condition_variable* self)
{
    memset(self, 0, sizeof(*self));
    obj_register(self, O_CV);
}

void
condition_variable_wait(struct condition_variable* __restrict self, struct lock* __restrict lock)
{
    struct dobj* c = obj_get(self, O_CV);
    struct dobj* l = obj_get(lock, O_LOCK);
    if (!managed())
        ds_terminal(DETSCHED_EXIT_MISUSE, "MISUSE", "condition_variable_wait outside detsched_run_main");
    if (l->owner != ds_tid)
        ds_terminal(DETSCHED_EXIT_MISUSE, "MISUSE", "condition_variable_wait without holding the lock");
    /* yield point 1: wait entry, the lock is still held */
    park(DS_WAIT, self, c->ord, 0);
    /* the step: atomically release and enqueue */
    l = obj_find(lock);
    l->owner = -1;
    struct dthread* th = &ds.th[ds_tid];
    th->wait_lock = lock;
    th->notified = 0;
    /* yield point 2: asleep; enabled once notified and the lock is free */
    park(DS_REACQ, self, c->ord, 0);
    l = obj_find(lock);
    l->owner = ds_tid;
    th->wait_lock = 0;
}

void
condition_variable_notify_all(struct condition_variable* self)
{
    struct dobj* c = obj_get(self, O_CV);
    if (managed())
        park(DS_NOTIFY, self, c->ord, 0);
    for (int t = 0; t < ds.nthreads; ++t)
        if (ds.th[t].state == T_PARKED && ds.th[t].kind == DS_REACQ && ds.th[t].addr == self)
            ds.th[t].notified = 1;
}

/* ------------------------------------------------------------------ events */

void
event_init(struct event* self)
{
    memset(self, 0, sizeof(*self));
    obj_register(self, O_EVENT);
}

void
event_destroy(struct event* self)
{
    (void)self;
}

void
event_notify_all(struct event* self)
{
    struct dobj* o = obj_get(self, O_EVENT);
    if (managed())
        park(DS_EVNOTIFY, self, o->ord, 0);
    self->state_ = 1;
}

void
event_set(struct event* self)
{
    event_notify_all(self);
}

void
event_wait(struct event* self)
{
    struct dobj* o = obj_get(self, O_EVENT);
    if (!managed()) {
        if (!self->state_)
            ds_terminal(DETSCHED_EXIT_MISUSE, "MISUSE", "event_wait on an unset event outside detsched_run_main");
        self->state_ = 0;
        return;
    }
    park(DS_EVWAIT, self, o->ord, 0);
    self->state_ = 0; /* reset, as linux/platform.c does */
}

/* ----------------------------------------------------------------- threads */

void
thread_init(struct thread* self)
{
    memset(self, 0, sizeof(*self));
    obj_register(self, O_THREAD);
}

uint8_t
thread_create(struct thread* self, void (*proc)(void*), void* args)
{
    struct dobj* o = obj_get(self, O_THREAD);
    if (!managed())
        ds_terminal(DETSCHED_EXIT_MISUSE, "MISUSE", "thread_create outside detsched_run_main");
    park(DS_CREATE, self, o->ord, 0);
    if (ds.nthreads >= DETSCHED_MAX_THREADS)
        ds_terminal(DETSCHED_EXIT_MISUSE, "MISUSE", "too many threads");
    int tid = ds.nthreads;
    struct dthread* th = &ds.th[tid];
    memset(th, 0, sizeof(*th));
    th->proc = proc;
    th->arg = args;
    th->kind = DS_START;
    th->obj = -1;
    th->state = T_PARKED;
    th->prio = (int64_t)ds.cfg.pct_depth + (int64_t)(rng_next() % 1000000) * 64 + tid;
    sem_init(&th->sem, 0, 0);
    ds.nthreads = tid + 1;
    o = obj_find(self);
    o->owner = tid;
    self->is_live_ = 1;
    if (pthread_create(&self->inner_, 0, trampoline, th) != 0) {
        th->state = T_FINISHED;
        self->is_live_ = 0;
        return 0;
    }
    return 1;
}

void
thread_join(struct thread* self)
{
    struct dobj* o = obj_get(self, O_THREAD);
    if (managed())
        park(DS_JOIN, self, o->ord, 0);
    if (self->is_live_) {
        void* v;
        pthread_join(self->inner_, &v);
        self->is_live_ = 0;
    }
}

/* ------------------------------------------------------------------ clocks */

void
clock_init(struct clock* clock)
{
    clock->origin = ds.now_ns;
}

void
clock_shift_ms(struct clock* clock, double ms)
{
    int64_t dt = (int64_t)(ms * 1e6);
    if (ms < 0 && clock->origin < (uint64_t)-dt) {
        clock->origin = 0;
    } else {
        clock->origin += dt;
    }
}

uint64_t
clock_tic(struct clock* clock)
{
    if (clock)
        clock->origin = ds.now_ns;
    return ds.now_ns;
}

int64_t
clock_toc(struct clock* clock)
{
    return (int64_t)(ds.now_ns - clock->origin);
}

double
clock_toc_ms(struct clock* clock)
{
    return (double)clock_toc(clock) * 1e-6;
}

int8_t
clock_cmp(struct clock* clock, uint64_t timestamp)
{
    const uint64_t o = clock->origin;
    return (timestamp < o) ? -1 : ((timestamp > o) ? 1 : 0);
}

int8_t
clock_cmp_now(struct clock* clock)
{
    return clock_cmp(clock, ds.now_ns);
}

void
clock_sleep_ms(struct clock* clock, float delay_ms)
{
    struct clock dummy;
    if (!clock) {
        clock_init(&dummy);
        clock = &dummy;
    }
    /* always a yield point (so the yield structure of a program does not depend
       on the virtual time); the time jumps to the end of the sleep */
    uint64_t until = clock->origin;
    if (delay_ms > 0)
        until += (uint64_t)((double)delay_ms * 1e6);
    if (ds.active && ds_tid >= 0) {
        managed();
        ds.th[ds_tid].sleep_until = until;
        park(DS_SLEEP, 0, -1, 0);
    }
    if (ds.now_ns < until) {
        ds.now_ns = until;
        clock_tic(clock);
    }
}

/* ------------------------------------------------------------------ memory */

void*
memory_alloc(size_t capacity_bytes, enum AllocatorHint hint)
{
    (void)hint;
    return malloc(capacity_bytes);
}

void
memory_free(void* address)
{
    free(address);
}

/* ------------------------------------------- files (same as linux/platform.c) */

int
file_create(struct file* file, const char* filename, size_t bytesof_filename)
{
    (void)bytesof_filename;
    file->fid = open(filename, O_RDWR | O_CREAT | O_NONBLOCK, 0666);
    if (file->fid < 0)
        return 0;
    if (flock(file->fid, LOCK_EX | LOCK_NB) < 0) {
        close(file->fid);
        return 0;
    }
    return 1;
}

void
file_close(struct file* file)
{
    close(file->fid);
}

int
file_write(const struct file* file, uint64_t offset, const uint8_t* cur, const uint8_t* end)
{
    int retries = 0;
    while (cur < end && retries < 3) {
        size_t remaining = (size_t)(end - cur);
        ssize_t written = pwrite(file->fid, cur, remaining, (off_t)offset);
        if (written < 0)
            return 0;
        retries += (written == 0);
        offset += (uint64_t)written;
        cur += written;
    }
    return (retries < 3);
}

int
file_exists(const char* filename, size_t nbytes)
{
    (void)nbytes;
    return access(filename, F_OK) == 0;
}

int
file_is_writable(const char* filename, size_t nbytes)
{
    if (file_exists(filename, nbytes))
        return access(filename, W_OK) == 0;
    int fid = open(filename, O_RDWR | O_CREAT | O_NONBLOCK, 0666);
    if (fid < 0)
        return 0;
    close(fid);
    unlink(filename);
    return 1;
}

/* ------------------------------------------------------------- libraries */

int
lib_open(struct lib* self, const char* absolute_path)
{
    if (!self)
        return 0;
    self->inner = dlopen(absolute_path, RTLD_NOW | RTLD_LOCAL);
    return self->inner != 0;
}

void
lib_close(struct lib* self)
{
    if (self && self->inner) {
        dlclose(self->inner);
        self->inner = 0;
    }
}

void*
lib_load(struct lib* self, const char* name)
{
    if (!self || !self->inner || !name)
        return 0;
    return dlsym(self->inner, name);
}

int
lib_open_by_name(struct lib* self, const char* name)
{
    Dl_info info = { 0 };
    dladdr((void*)&lib_open_by_name, &info);
    if (!info.dli_fname)
        return 0;
    char* root = realpath(info.dli_fname, 0);
    char* slash = root ? strrchr(root, '/') : 0;
    if (!slash) {
        free(root);
        self->inner = 0;
        return 0;
    }
    *slash = 0;
    size_t n = strlen(root) + strlen(name) + 16;
    char* path = (char*)malloc(n);
    snprintf(path, n, "%s/lib%s.so", root, name);
    const int out = lib_open(self, path);
    free(root);
    free(path);
    return out;
}
