// Correspondence harness for the REAL TIFF writers (property C15).
//
// Real code linked in: storage/tiff.cpp, storage/side-by-side-tiff.cpp,
// storage/basic.storage.c (device construction), the HAL wrappers of
// device/hal/storage.c (storage_set/start/append/stop: the only place that
// assigns `Storage.state` for a top-level device), props/storage.c,
// components.c, logger.c and linux/platform.c (file_create/file_write/
// file_close on real files).
//
// Line protocol (same script is given to the Lean driver `acq_tiff`):
//   case <id>                                   new case directory <root>/c<id>, no device
//   open tiff|tiff-json
//   prefill <path> data|meta <len> <seed>       pre-existing file content (file_create does not truncate)
//   set <path> <prefix 0|1> null|str <hex|-> <sx_milli> <sy_milli>
//   start | stop | destroy | dump
//   append <n> { <w> <h> <type> <frame_id> <hw_frame_id> <ts_hw> <ts_acq> <pad> <seed> }*n
// One result line per operation.  `dump` prints one line listing every file
// the case could have produced, as hex.
//
// This program contains no knowledge of the TIFF layout: the property oracle
// (checks/c15.py: tiff_oracle) parses the dumped bytes independently.
#include "device/hal/storage.h"
#include "device/kit/storage.h"
#include "device/props/storage.h"
#include "device/props/components.h"
#include "identifiers.h"
#include "logger.h"

#include <cerrno>
#include <cstdlib>
#include <sys/syscall.h>
#include <unistd.h>

// Short writes are legal kernel behaviour (large requests, quotas, network file systems): with VERIF_SHORT_WRITES=k every
// pwrite of more than k bytes writes only k. The files must come out the same (file_write's loop resumes where it stopped).
extern "C" ssize_t
pwrite(int fd, const void* buf, size_t count, off_t off)
{
    static long k = -2;
    if (k == -2) {
        const char* e = getenv("VERIF_SHORT_WRITES");
        k = e ? atol(e) : -1;
    }
    if (k > 0 && count > (size_t)k)
        count = (size_t)k;
    return (ssize_t)syscall(SYS_pwrite64, fd, buf, count, off);
}
extern "C" ssize_t
pwrite64(int fd, const void* buf, size_t count, off_t off)
{
    return pwrite(fd, buf, count, off);
}
#include <cstdint>
#include <cstdio>
#include <cstdlib>
#include <cstring>
#include <set>
#include <sstream>
#include <string>
#include <cstddef>
#include <sys/stat.h>
#include <vector>

extern "C"
{
    struct Storage* basics_make_storage(enum BasicDeviceKind kind);
    void basics_storage_shutdown(struct Driver* driver);

    // referenced by hal/storage.c (storage_open/validate/close) and by the
    // error path of basic.storage.c; never reached by this harness.
    struct Driver* device_manager_get_driver(const struct DeviceManager*, const struct DeviceIdentifier*)
    {
        abort();
    }
    enum DeviceStatusCode driver_open_device(struct Driver*, uint8_t, struct Device**)
    {
        abort();
    }
    // what the drivers' close does for a storage device: destroy it (storage_close goes through this)
    enum DeviceStatusCode driver_close_device(struct Device* d)
    {
        struct Storage* s = (struct Storage*)((char*)d - offsetof(struct Storage, device));
        s->destroy(s);
        return Device_Ok;
    }
    const char* basic_device_kind_to_string(enum BasicDeviceKind)
    {
        return "(harness)";
    }
    const char* device_kind_as_string(enum DeviceKind)
    {
        return "(harness)";
    }
    const char* device_state_as_string(enum DeviceState s)
    {
        switch (s) {
            case DeviceState_Closed: return "closed";
            case DeviceState_AwaitingConfiguration: return "awaiting";
            case DeviceState_Armed: return "armed";
            case DeviceState_Running: return "running";
            default: return "?";
        }
    }
}

static int g_verbose;
static void
reporter(int is_error, const char* file, int line, const char* function, const char* msg)
{
    if (g_verbose)
        fprintf(stderr, "%s%s(%d) %s: %s\n", is_error ? "ERROR " : "", file, line, function, msg);
}

static std::string g_root, g_dir;
static struct Storage* g_dev;
static int g_kind; // 0 tiff, 1 tiff-json
static std::set<unsigned long> g_paths;

static const char*
st(enum DeviceState s)
{
    return device_state_as_string(s);
}

static uint8_t
gen(uint64_t seed, uint64_t i)
{
    return (uint8_t)((seed * 167 + i * i * 3 + i * 13 + (i >> 7)) & 0xff);
}

static std::string
path_of(unsigned long p)
{
    return g_dir + "/p" + std::to_string(p) + (g_kind == 0 ? ".tif" : "");
}

static bool
unhex(const std::string& h, std::string& out)
{
    out.clear();
    if (h == "-")
        return true;
    if (h.size() % 2)
        return false;
    for (size_t i = 0; i < h.size(); i += 2) {
        unsigned v;
        if (sscanf(h.c_str() + i, "%2x", &v) != 1)
            return false;
        out.push_back((char)v);
    }
    return true;
}

static void
dump_file(const std::string& label, const std::string& path)
{
    FILE* f = fopen(path.c_str(), "rb");
    if (!f) {
        printf(" %s absent", label.c_str());
        return;
    }
    std::vector<uint8_t> buf;
    uint8_t tmp[65536];
    size_t n;
    while ((n = fread(tmp, 1, sizeof(tmp), f)) > 0)
        buf.insert(buf.end(), tmp, tmp + n);
    fclose(f);
    printf(" %s %zu ", label.c_str(), buf.size());
    if (buf.empty())
        printf("-");
    static const char* hx = "0123456789abcdef";
    std::string s;
    s.reserve(buf.size() * 2);
    for (uint8_t b : buf) {
        s.push_back(hx[b >> 4]);
        s.push_back(hx[b & 15]);
    }
    fputs(s.c_str(), stdout);
}

static void
rm_rf(const std::string& d)
{
    std::string cmd = "rm -rf '" + d + "'";
    if (system(cmd.c_str())) {
    }
}

int
main(int argc, char** argv)
{
    if (argc < 2) {
        fprintf(stderr, "usage: h_tiff <scratch-root> [-v]\n");
        return 2;
    }
    g_root = argv[1];
    g_verbose = argc > 2;
    mkdir(g_root.c_str(), 0777);
    logger_set_reporter(reporter);

    std::string line;
    char* lbuf = 0;
    size_t lcap = 0;
    ssize_t ll;
    while ((ll = getline(&lbuf, &lcap, stdin)) >= 0) {
        line.assign(lbuf, (size_t)ll);
        std::istringstream in(line);
        std::string op;
        if (!(in >> op))
            continue;
        if (op == "case") {
            std::string id;
            in >> id;
            if (g_dev) { // not destroyed by the script: finish quietly
                g_dev->destroy(g_dev);
                g_dev = 0;
            }
            if (!g_dir.empty())
                rm_rf(g_dir);
            g_dir = g_root + "/c" + id;
            rm_rf(g_dir);
            mkdir(g_dir.c_str(), 0777);
            g_paths.clear();
            printf("case %s\n", id.c_str());
        } else if (op == "open") {
            std::string k;
            in >> k;
            if (g_dev || g_dir.empty() || (k != "tiff" && k != "tiff-json")) {
                printf("illformed\n");
                continue;
            }
            g_kind = (k == "tiff-json");
            g_dev = basics_make_storage(g_kind ? BasicDevice_Storage_SideBySideTiffJson : BasicDevice_Storage_Tiff);
            if (!g_dev) {
                printf("open failed\n");
                continue;
            }
            printf("open %s\n", k.c_str());
        } else if (op == "prefill") {
            unsigned long p, len, seed;
            std::string which;
            in >> p >> which >> len >> seed;
            if (!g_dev || (which != "data" && which != "meta") || (which == "meta" && g_kind == 0)) {
                printf("illformed\n");
                continue;
            }
            std::string path = path_of(p);
            if (g_kind == 1) {
                mkdir(path.c_str(), 0777);
                path += (which == "data") ? "/data.tif" : "/metadata.json";
            }
            FILE* f = fopen(path.c_str(), "wb");
            for (unsigned long i = 0; f && i < len; ++i)
                fputc(gen(seed, i), f);
            if (f)
                fclose(f);
            g_paths.insert(p);
            printf("prefill %lu\n", len);
        } else if (op == "set") {
            unsigned long p, prefix;
            std::string mk, mhex;
            unsigned long long sx, sy;
            in >> p >> prefix >> mk >> mhex >> sx >> sy;
            std::string meta;
            if (!g_dev || in.fail() || !unhex(mhex, meta) || g_dev->state == DeviceState_Running) {
                printf("illformed\n");
                continue;
            }
            std::string uri = std::string(prefix ? "file://" : "") + path_of(p);
            struct StorageProperties props = {};
            struct PixelScale scale = { sx / 1000.0, sy / 1000.0 };
            int ok = storage_properties_init(&props,
                                             0,
                                             uri.c_str(),
                                             uri.size() + 1,
                                             mk == "null" ? 0 : meta.c_str(),
                                             mk == "null" ? 0 : meta.size() + 1,
                                             scale,
                                             0);
            if (!ok) {
                printf("set props-failed\n");
                continue;
            }
            if (mk == "null") {
                // storage_properties_init turns a NULL string into ""; a caller of the driver
                // interface may still hand over {NULL, 0}
                free(props.external_metadata_json.str);
                props.external_metadata_json = {};
            }
            enum DeviceStatusCode rc = storage_set(g_dev, &props);
            storage_properties_destroy(&props);
            g_paths.insert(p);
            printf("set %d %s\n", (int)rc, st(g_dev->state));
        } else if (op == "start") {
            if (!g_dev) {
                printf("illformed\n");
                continue;
            }
            enum DeviceStatusCode rc = storage_start(g_dev);
            printf("start %d %s\n", (int)rc, st(g_dev->state));
        } else if (op == "stop") {
            if (!g_dev) {
                printf("illformed\n");
                continue;
            }
            enum DeviceStatusCode rc = storage_stop(g_dev);
            printf("stop %d %s\n", (int)rc, st(g_dev->state));
        } else if (op == "destroy") {
            if (!g_dev) {
                printf("illformed\n");
                continue;
            }
            // the real storage_close: whatever state the device is in, the file has to end up finished and closed
            storage_close(g_dev);
            g_dev = 0;
            printf("destroy\n");
        } else if (op == "append") {
            unsigned long n;
            in >> n;
            struct F
            {
                unsigned long w, h, type, pad;
                unsigned long long fid, hwfid, tshw, tsacq, seed;
            };
            std::vector<F> fs(n);
            bool bad = in.fail() || !g_dev;
            size_t total = 0;
            for (auto& f : fs) {
                in >> f.w >> f.h >> f.type >> f.fid >> f.hwfid >> f.tshw >> f.tsacq >> f.pad >> f.seed;
                if (in.fail() || f.type >= SampleTypeCount) {
                    bad = true;
                    break;
                }
                size_t nb = sizeof(struct VideoFrame) + (size_t)f.w * f.h * bytes_of_type((enum SampleType)f.type) + f.pad;
                if (nb % 8)
                    bad = true; // packets are 8-aligned chains of frames (C05)
                total += nb;
            }
            if (bad) {
                printf("illformed\n");
                continue;
            }
            uint8_t* buf = (uint8_t*)aligned_alloc(64, ((total + 63) / 64) * 64 + 64);
            uint8_t* cur = buf;
            for (auto& f : fs) {
                size_t bpp = bytes_of_type((enum SampleType)f.type);
                size_t nimg = (size_t)f.w * f.h * bpp + f.pad;
                struct VideoFrame* v = (struct VideoFrame*)cur;
                memset(v, 0, sizeof(*v));
                v->bytes_of_frame = sizeof(*v) + nimg;
                v->shape.dims = { 1, (uint32_t)f.w, (uint32_t)f.h, 1 };
                v->shape.strides = { 1, 1, (int64_t)f.w, (int64_t)(f.w * f.h) };
                v->shape.type = (enum SampleType)f.type;
                v->frame_id = f.fid;
                v->hardware_frame_id = f.hwfid;
                v->timestamps.hardware = f.tshw;
                v->timestamps.acq_thread = f.tsacq;
                for (size_t i = 0; i < nimg; ++i)
                    v->data[i] = gen(f.seed, i);
                cur += v->bytes_of_frame;
            }
            enum DeviceStatusCode rc =
              storage_append(g_dev, (struct VideoFrame*)buf, (struct VideoFrame*)(buf + total));
            free(buf);
            printf("append %d %s\n", (int)rc, st(g_dev->state));
        } else if (op == "dump") {
            printf("dump");
            for (unsigned long p : g_paths) {
                std::string base = path_of(p);
                if (g_kind == 0) {
                    dump_file("p" + std::to_string(p) + ".data", base);
                } else {
                    dump_file("p" + std::to_string(p) + ".data", base + "/data.tif");
                    dump_file("p" + std::to_string(p) + ".meta", base + "/metadata.json");
                }
            }
            printf("\n");
        } else {
            printf("bad-op\n");
        }
        fflush(stdout);
    }
    if (g_dev)
        g_dev->destroy(g_dev);
    if (!g_dir.empty())
        rm_rf(g_dir);
    free(lbuf);
    return 0;
}
