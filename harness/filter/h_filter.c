// C10 harness: the REAL filter.c (included, to reach the static process_data / video_filter_thread),
// linked with the real channel.c, frame_iterator.c, throttler.c, components.c, logger.c and linux/platform.c.
// Single-threaded: this program plays the source (writes frames into the filter's input channel) and the
// sink (registered reader of the output channel, drains it after every call into the filter).
//
// stdin, one operation per line (same script as the model driver `acq_filter`):
//   new <k> <cap_in> <cap_out> <fill>     video_filter_init/configure; both rings filled with byte <fill>
//   w <seed> <id> <w> <h> <type>          write one frame (pixels from the seeded generator) into `in`
//   p <reset>                             process_data until the input queue is empty; with reset=1 one more
//                                         call with sig_accumulator_reset raised
//   accept <0|1>                          channel_accept_writes(out, tf)
//   T                                     the real video_filter_thread with is_stopping=1 (flush loop + Finalize)
//   fin                                   what Finalize does with this harness' accumulator
//   end                                   end of case
// stdout: per committed frame  `F id= ty= w= h= npx= bytes= bits=<float32 bit patterns>`,
//         per operation one status line; `ORACLE …` = implementation-side property oracle failed;
//         `# …` = information for the check (not compared).
#define _GNU_SOURCE
#include <signal.h>
#include <stdio.h>
#include <stdlib.h>
#include <unistd.h>

#include "runtime/filter.c" // the real code
#include "device/props/components.h"

static void reporter(int is_error, const char* file, int line, const char* function, const char* msg)
{
    (void)is_error; (void)file; (void)line; (void)function; (void)msg;
}

// ------------------------------------------------------------------------------ pixel generator
static uint32_t mix(uint32_t seed, uint32_t i)
{
    uint32_t x = seed * 2654435761u + i * 2246822519u + 374761393u;
    x ^= x >> 15; x *= 2246822519u; x ^= x >> 13; x *= 3266489917u; x ^= x >> 16;
    return x;
}

static int type_bits(int t)
{
    switch (t) {
        case SampleType_u8: case SampleType_i8: return 8;
        case SampleType_u10: return 10;
        case SampleType_u12: return 12;
        case SampleType_u14: return 14;
        default: return 16;
    }
}
static int type_signed(int t) { return t == SampleType_i8 || t == SampleType_i16; }
static int type_integer(int t)
{
    return t == SampleType_u8 || t == SampleType_u16 || t == SampleType_i8 || t == SampleType_i16 ||
           t == SampleType_u10 || t == SampleType_u12 || t == SampleType_u14;
}

// raw unsigned bit pattern stored in the frame, and the value it stands for
// seed % 16 == 0: every sample is the type's maximum; seed % 16 == 1: its minimum
static uint32_t sample_raw(int t, uint32_t seed, uint32_t x)
{
    int bits = type_bits(t), sg = type_signed(t);
    uint32_t sel = (seed & 15u) == 0 ? 0 : (seed & 15u) == 1 ? 1 : x >> 28;
    if (sel == 0) return sg ? (1u << (bits - 1)) - 1 : (1u << bits) - 1;
    if (sel == 1) return sg ? (1u << (bits - 1)) : 0;
    return x % (1u << bits);
}
static int64_t sample_value(int t, uint32_t raw)
{
    int bits = type_bits(t);
    if (type_signed(t) && raw >= (1u << (bits - 1))) return (int64_t)raw - ((int64_t)1 << bits);
    return (int64_t)raw;
}

// ------------------------------------------------------------------------------ state
static struct video_filter_s F;
static struct channel OUT;
static struct channel_reader SINK;
static int have;
static uint64_t frame_count;
static struct VideoFrame* accumulator;
static int failed, finalized, k_cfg;

#define MAXIN 4096
static struct inrec { uint64_t id; int type; uint32_t w, h; size_t npx; int64_t* v; } g_in[MAXIN];
static int g_nin, g_processed;
static int g_nout;
static int g_clean;
static unsigned long g_checked, g_oracle_fail;
static uint32_t g_w0, g_h0;

static void oracle(const char* fmt, ...)
{
    va_list ap;
    va_start(ap, fmt);
    printf("ORACLE ");
    vprintf(fmt, ap);
    printf("\n");
    va_end(ap);
    ++g_oracle_fail;
}

static uint32_t f2u(float f) { uint32_t u; memcpy(&u, &f, 4); return u; }

static void on_alarm(int sig)
{
    (void)sig;
    static const char msg[] = "BLOCKED\n";
    fflush(stdout);
    if (write(1, msg, sizeof msg - 1)) {}
    _exit(3);
}

static void release(void)
{
    if (!have) return;
    channel_release(&F.in);
    channel_release(&OUT);
    event_destroy(&F.accumulator_reset_event);
    for (int i = 0; i < g_nin; ++i) free(g_in[i].v);
    have = 0;
}

// implementation-side oracle for one committed frame (clean conditions only)
static void check_output(const struct VideoFrame* f)
{
    int j = g_nout;
    if (!g_clean) return;
    int k = k_cfg < 2 ? 2 : k_cfg;
    long first = (long)j * k;
    if (first >= g_processed) { oracle("frame-without-input out=%d inputs=%d k=%d", j, g_processed, k); return; }
    int cnt = g_processed - first < k ? (int)(g_processed - first) : k;
    const struct inrec* a = &g_in[first];
    if (f->frame_id != a->id) oracle("wrong-frame-id out=%d got=%llu want=%llu", j, (unsigned long long)f->frame_id, (unsigned long long)a->id);
    if (f->shape.type != SampleType_f32) oracle("type-not-f32 out=%d got=%d", j, (int)f->shape.type);
    if (f->shape.dims.width != a->w || f->shape.dims.height != a->h || (size_t)f->shape.strides.planes != a->npx) {
        oracle("wrong-shape out=%d", j);
        return;
    }
    if (cnt < k && !finalized) oracle("incomplete-window-committed-before-the-end out=%d frames=%d k=%d", j, cnt, k);
    const float* x = (const float*)f->data;
    float inv = 1.0f / (float)cnt;
    for (size_t i = 0; i < a->npx; ++i) {
        int64_t sum = 0;
        for (int q = 0; q < cnt; ++q) sum += g_in[first + q].v[i];
        float s = (float)sum;         // exact: |sum| < 2^24 for the window sizes the check generates
        float want = s * inv;
        int ok = f2u(x[i]) == f2u(want);
        if (cnt < k) ok = ok || f2u(x[i]) == f2u(s); // trailing incomplete window: the property only bounds their number
        if (!ok) {
            oracle("%s out=%d px=%zu got=%08x want=%08x sum=%lld n=%d type=%d", cnt < k ? "trailing-frame-not-the-sums-of-its-window" : "pixel-not-the-mean",
                   j, i, f2u(x[i]), f2u(want), (long long)sum, cnt, a->type);
            break;
        }
    }
    ++g_checked;
}

static void print_frame(const char* tag, const struct VideoFrame* f)
{
    size_t npx = (size_t)f->shape.strides.planes;
    printf("%s id=%llu ty=%d w=%u h=%u npx=%zu bytes=%zu bits=", tag, (unsigned long long)f->frame_id, (int)f->shape.type, f->shape.dims.width,
           f->shape.dims.height, npx, f->bytes_of_frame);
    const float* x = (const float*)f->data;
    for (size_t i = 0; i < npx; ++i) printf("%s%08x", i ? "," : "", f2u(x[i]));
    printf("\n");
}

// the sink: read everything committed to OUT
static void drain(void)
{
    for (;;) {
        struct slice sl = channel_read_map(&OUT, &SINK);
        size_t n = (size_t)(sl.end - sl.beg);
        if (!n) break;
        if (((uintptr_t)sl.beg) % 8) oracle("sink-region-misaligned");
        struct frame_iterator it = frame_iterator_init(&sl);
        struct VideoFrame* f;
        while ((f = frame_iterator_next(&it))) {
            if ((uint8_t*)f + f->bytes_of_frame > sl.end || f->bytes_of_frame < sizeof(*f)) { oracle("sink-region-not-whole-frames"); break; }
            check_output(f);
            print_frame("F", f);
            ++g_nout;
        }
        channel_read_unmap(&OUT, &SINK, n);
    }
}

static void status(const char* op, int ret)
{
    printf("%s ret=%d fc=%llu acc=", op, ret, (unsigned long long)frame_count);
    if (accumulator) {
        size_t npx = (size_t)accumulator->shape.strides.planes;
        printf("%llu bits=", (unsigned long long)accumulator->frame_id);
        const float* x = (const float*)accumulator->data;
        for (size_t i = 0; i < npx; ++i) printf("%s%08x", i ? "," : "", f2u(x[i]));
        printf("\n");
    } else
        printf("-\n");
}

static void mark_unclean_if_needed(uint32_t w, uint32_t h, int type)
{
    if (g_nin == 0) { g_w0 = w; g_h0 = h; }
    if (w != g_w0 || h != g_h0 || !type_integer(type)) g_clean = 0;
}

int main(void)
{
    char line[256];
    logger_set_reporter(reporter);
    signal(SIGALRM, on_alarm);
    while (fgets(line, sizeof line, stdin)) {
        unsigned long a, b, c, d, e;
        alarm(5);
        if (sscanf(line, "new %lu %lu %lu %lu", &a, &b, &c, &d) == 4) {
            release();
            channel_new(&OUT, c);
            memset(&SINK, 0, sizeof SINK);
            { // the sink registers its reader while the channel is empty (video_sink_init)
                struct slice s0 = channel_read_map(&OUT, &SINK);
                channel_read_unmap(&OUT, &SINK, (size_t)(s0.end - s0.beg));
            }
            if (video_filter_init(&F, 0, b, &OUT) != Device_Ok) { printf("new failed\n"); continue; }
            video_filter_configure(&F, (uint32_t)a);
            memset(OUT.data, (int)d, c);
            memset(F.in.data, (int)d, b);
            have = 1; frame_count = 0; accumulator = 0; failed = 0; finalized = 0; k_cfg = (int)a;
            g_nin = g_processed = g_nout = 0; g_clean = 1; g_checked = 0;
            printf("new\n");
        } else if (!have) {
            printf("bad-op\n");
        } else if (sscanf(line, "w %lu %lu %lu %lu %lu", &a, &b, &c, &d, &e) == 5) {
            if (g_nin >= MAXIN || finalized || failed) { printf("illformed\n"); continue; }
            int type = (int)e;
            struct ImageShape shape = { .dims = { .channels = 1, .width = (uint32_t)c, .height = (uint32_t)d, .planes = 1 },
                                        .strides = { .channels = 1, .width = 1, .height = (int64_t)c, .planes = (int64_t)(c * d) },
                                        .type = (enum SampleType)type };
            size_t npx = c * d, sz = bytes_of_image(&shape);
            size_t nbytes = 8 * ((sizeof(struct VideoFrame) + sz + 7) / 8);
            struct VideoFrame* im = (struct VideoFrame*)channel_write_map(&F.in, nbytes);
            if (!im) { printf("w null\n"); continue; }
            mark_unclean_if_needed((uint32_t)c, (uint32_t)d, type);
            struct inrec* r = &g_in[g_nin];
            *r = (struct inrec){ .id = b, .type = type, .w = (uint32_t)c, .h = (uint32_t)d, .npx = npx, .v = calloc(npx ? npx : 1, sizeof(int64_t)) };
            *im = (struct VideoFrame){ .shape = shape, .bytes_of_frame = nbytes, .frame_id = b, .hardware_frame_id = b,
                                       .timestamps.hardware = b * 7 + 1, .timestamps.acq_thread = b * 11 + 3 };
            memset(im->data, 0xEE, nbytes - sizeof(struct VideoFrame));
            if (type_integer(type)) {
                for (size_t i = 0; i < npx; ++i) {
                    uint32_t raw = sample_raw(type, (uint32_t)a, mix((uint32_t)a, (uint32_t)i));
                    r->v[i] = sample_value(type, raw);
                    if (type_bits(type) == 8) im->data[i] = (uint8_t)raw;
                    else { uint16_t v16 = (uint16_t)raw; memcpy(im->data + 2 * i, &v16, 2); }
                }
            }
            ++g_nin;
            channel_write_unmap(&F.in);
            printf("w ok\n");
        } else if (sscanf(line, "p %lu", &a) == 1) {
            if (failed || finalized) { printf("illformed\n"); continue; }
            if (a) g_clean = 0;
            int ret = 1, calls = 0;
            size_t nbytes_read = 0;
            g_processed = g_nin;
            do {
                F.sig_accumulator_reset = 0;
                ret = process_data(&F, &accumulator, &frame_count, &nbytes_read);
                ++calls;
                drain();
            } while (ret && nbytes_read);
            if (ret && a) {
                F.sig_accumulator_reset = 1;
                ret = process_data(&F, &accumulator, &frame_count, &nbytes_read);
                if (F.sig_accumulator_reset) oracle("reset-signal-not-acknowledged");
                drain();
            }
            if (!ret) { failed = 1; g_clean = 0; }
            status("P", ret);
            printf("# calls=%d\n", calls);
        } else if (sscanf(line, "accept %lu", &a) == 1) {
            if (!a) g_clean = 0;
            channel_accept_writes(&OUT, (uint32_t)a);
            printf("accept %lu\n", a);
        } else if (line[0] == 'T') {
            if (failed || finalized || accumulator) { printf("illformed\n"); continue; }
            F.is_stopping = 1;
            F.is_running = 1;
            finalized = 1;
            g_processed = g_nin;
            int ecode = video_filter_thread(&F);
            if (F.is_running || F.is_stopping) oracle("thread-exit-flags");
            if (ecode) g_clean = 0;
            drain();
            printf("T ret=%d\n", ecode);
        } else if (!strncmp(line, "fin", 3)) {
            if (finalized) { printf("illformed\n"); continue; }
            finalized = 1;
            // Finalize: of video_filter_thread
            if (accumulator) channel_write_unmap(F.out);
            accumulator = 0;
            drain();
            printf("FIN\n");
        } else if (!strncmp(line, "end", 3)) {
            if (g_clean) {
                int k = k_cfg < 2 ? 2 : k_cfg;
                int full = g_processed / k, extra = (finalized && g_processed % k) ? 1 : 0;
                if (g_nout != full + extra)
                    oracle("committed-%d-frames-expected-%d inputs=%d k=%d finalized=%d", g_nout, full + extra, g_processed, k, finalized);
            }
            printf("END outputs=%d\n", g_nout);
            printf("# checked=%lu clean=%d inputs=%d oracle_fail=%lu\n", g_checked, g_clean, g_nin, g_oracle_fail);
        } else {
            printf("bad-op\n");
        }
        fflush(stdout);
    }
    alarm(0);
    release();
    return 0;
}
