// Sequential correspondence + oracle harness for the REAL channel.c.
// Reads the line protocol of `acq_chan` on stdin, executes each operation on
// the real code and prints the same canonical result lines.  Independently of
// the model it keeps a shadow copy of the committed byte stream and checks the
// text of properties C01 / C02 on everything the implementation returns
// (lines starting with "ORACLE").
//
// Platform: the repo's own platform.h; the few functions channel.c needs are
// implemented here.  `condition_variable_wait` leaves `channel_write_map` by
// longjmp and the operation is reported as "block" (state is unchanged: the
// wait loop only reads).
//
// Big rings (capacity above 16 MiB, up to several GiB): the ring is address space only (PROT_NONE, never touched) and
// the oracles work on intervals instead of bytes: a list of committed segments (stream index, length, buffer offset)
// replaces the byte-wise shadow.  channel.c is compiled with -Dmemset=h_memset so that channel_new's memset of the
// ring is skipped for such a mapping (and is the real memset everywhere else).  What this mode is for: every size_t
// in channel.c that is narrowed to 32 bits somewhere (offsets, lengths, comparison results) behaves differently from
// the model's natural numbers only beyond 2^31 / 2^32.
#include "runtime/channel.h"
#include <setjmp.h>
#include <stdio.h>
#include <stdlib.h>
#include <string.h>
#include <sys/mman.h>

#define BIG_THRESHOLD ((size_t)1 << 24)
static void* g_big_ptr;
static size_t g_big_len;
static int big; // the current channel is a big ring

void* h_memset(void* p, int c, size_t n)
{
    if (p && p == g_big_ptr) return p;
    return __builtin_memset(p, c, n);
}

static jmp_buf g_block;
static int g_lock_depth;
static unsigned long g_unlocked_access_checks;

void* memory_alloc(size_t n, enum AllocatorHint hint)
{
    (void)hint;
    if (n > BIG_THRESHOLD) {
        void* p = mmap(0, n, PROT_NONE, MAP_PRIVATE | MAP_ANONYMOUS | MAP_NORESERVE, -1, 0);
        if (p == MAP_FAILED) { printf("mmap-failed\n"); exit(4); }
        g_big_ptr = p; g_big_len = n;
        return p;
    }
    return malloc(n ? n : 1);
}
void memory_free(void* p)
{
    if (p && p == g_big_ptr) { munmap(p, g_big_len); g_big_ptr = 0; g_big_len = 0; return; }
    free(p);
}
void lock_init(struct lock* self) { (void)self; }
void lock_acquire(struct lock* self) { (void)self; ++g_lock_depth; }
void lock_release(struct lock* self) { (void)self; --g_lock_depth; }
void condition_variable_init(struct condition_variable* self) { (void)self; }
void condition_variable_notify_all(struct condition_variable* self) { (void)self; }
void condition_variable_wait(struct condition_variable* self, struct lock* lock)
{
    (void)self; (void)lock;
    longjmp(g_block, 1);
}

#define MAXR 16
#define MAXSTREAM (1u << 21)

static struct channel ch;
static struct channel_reader rd[MAXR];
static int nrd;
static int have_channel;

// ---- oracle state (implementation-only knowledge) -------------------------
static unsigned char* stream;      // committed bytes, in commit order
static size_t* loc;                // buffer offset at which stream byte j was committed
static size_t total;               // bytes committed so far
static size_t bounds[1 << 16];     // write boundaries (stream indices)
static size_t nbounds;
static size_t pend_beg, pend_len;  // region handed to the writer
static int pending;
static struct
{
    int resolved;          // stream index known
    size_t idx;            // next unconsumed stream byte
    size_t total_at_join;
    size_t nbounds_at_join;
    int mapped;
    size_t mbeg, mlen;     // mapped region (offset, length)
} orc[MAXR];
// big rings: committed segments instead of bytes
#define MAXSEG 4096
static struct { size_t sidx, len, off; } seg[MAXSEG];
static size_t nseg;
// does stream range [idx, idx+len) lie at buffer offsets [beg, beg+len), in order?
static int seg_contiguous_at(size_t idx, size_t len, size_t beg)
{
    size_t done = 0;
    for (size_t s = 0; s < nseg && done < len; ++s) {
        if (seg[s].sidx + seg[s].len <= idx + done) continue;
        if (seg[s].sidx > idx + done) return 0;
        size_t skip = idx + done - seg[s].sidx;
        if (seg[s].off + skip != beg + done) return 0;
        size_t take = seg[s].len - skip;
        if (take > len - done) take = len - done;
        done += take;
    }
    return done == len;
}
// first stream index >= idx whose buffer location falls into [beg, beg+n); (size_t)-1 if none
static size_t seg_first_in(size_t idx, size_t beg, size_t n)
{
    for (size_t s = 0; s < nseg; ++s) {
        if (seg[s].sidx + seg[s].len <= idx) continue;
        size_t skip = seg[s].sidx < idx ? idx - seg[s].sidx : 0;
        size_t lo = seg[s].off + skip, hi = seg[s].off + seg[s].len; // locations of the unconsumed part
        if (lo < beg + n && beg < hi) return seg[s].sidx + skip + (lo < beg ? beg - lo : 0);
    }
    return (size_t)-1;
}
static unsigned long n_oracle_fail;
static int frame_mode; // C05: writes are whole frames (multiples of 8), readers consume up to frame boundaries

static int is_boundary(size_t j)
{
    for (size_t b = 0; b < nbounds; ++b)
        if (bounds[b] == j) return 1;
    return 0;
}

static unsigned char payload(size_t j)
{
    unsigned x = (unsigned)j * 2654435761u;
    return (unsigned char)((x >> 13) ^ (x >> 24) ^ (j >> 9));
}

static char g_orc_buf[4096];
static size_t g_orc_len;
static void oracle_fail(const char* what, long a, long b, long c)
{
    ++n_oracle_fail;
    if (g_orc_len < sizeof(g_orc_buf) - 128)
        g_orc_len += (size_t)snprintf(g_orc_buf + g_orc_len, 128, "ORACLE %s %ld %ld %ld\n", what, a, b, c);
}
static void oracle_flush(void)
{
    if (g_orc_len) fputs(g_orc_buf, stdout);
    g_orc_len = 0; g_orc_buf[0] = 0;
}

static void check_mapped_regions_stable(void)
{
    if (big) return; // intervals only: an overlapping write is reported when it is handed out
    for (int r = 0; r < nrd; ++r) {
        if (!orc[r].mapped || !orc[r].resolved) continue;
        for (size_t j = 0; j < orc[r].mlen; ++j)
            if (orc[r].mbeg + j >= ch.capacity || orc[r].idx + j >= total ||
                ch.data[orc[r].mbeg + j] != stream[orc[r].idx + j]) {
                oracle_fail("mapped-region-changed", r, (long)(orc[r].mbeg + j), (long)(orc[r].idx + j));
                break;
            }
    }
}

static void digest(void)
{
    printf(" | %zu %zu %zu %zu %d %u [", ch.head, ch.high, ch.cycle, ch.mapped,
           ch.is_accepting_writes ? 1 : 0, ch.holds.n);
    for (unsigned i = 0; i < ch.holds.n && i < 8; ++i)
        printf("%s%zu:%zu", i ? " " : "", ch.holds.pos[i], ch.holds.cycles[i]);
    printf("] | [");
    for (int i = 0; i < nrd; ++i)
        printf("%s%u:%zu:%zu:%d:%d", i ? " " : "", rd[i].id, rd[i].pos, rd[i].cycle,
               (int)rd[i].status, rd[i].state == ChannelState_Mapped ? 1 : 0);
    printf("] | %zu\n", total);
}

static void do_new(size_t cap)
{
    if (have_channel) { channel_release(&ch); }
    big = cap > BIG_THRESHOLD;
    nseg = 0;
    channel_new(&ch, cap);
    have_channel = 1;
    memset(rd, 0, sizeof(rd));
    memset(orc, 0, sizeof(orc));
    nrd = 0; total = 0; nbounds = 0; bounds[nbounds++] = 0; pending = 0;
    g_lock_depth = 0;
    printf("new"); digest();
}

static void illformed(void) { printf("illformed"); digest(); }

static void do_wmap(size_t n)
{
    // a second channel_write_map without ending the first is within the rules: the earlier region is simply dropped
    // (source.c does exactly that after a failed camera_get_frame)
    if (setjmp(g_block)) {
        g_lock_depth = 0;
        printf("block"); digest();
        return;
    }
    unsigned char* p = (unsigned char*)channel_write_map(&ch, n);
    if (!p) { printf("null"); digest(); return; }
    size_t beg = (size_t)(p - ch.data);
    // C02: inside the buffer
    if (beg + n > ch.capacity) oracle_fail("write-region-outside-buffer", (long)beg, (long)n, (long)ch.capacity);
    if (frame_mode && beg % 8) oracle_fail("frame-write-misaligned", (long)beg, (long)n, 0);
    for (int r = 0; r < nrd; ++r) {
        // C02: not overlapping a mapped reader region
        if (orc[r].mapped && beg < orc[r].mbeg + orc[r].mlen && orc[r].mbeg < beg + n)
            oracle_fail("write-region-overlaps-mapped-reader", r, (long)beg, (long)n);
        // C02: not overlapping bytes the reader has yet to consume
        if (orc[r].resolved && big) {
            size_t j = seg_first_in(orc[r].idx, beg, n);
            if (j != (size_t)-1) oracle_fail("write-region-overlaps-unconsumed", r, (long)beg, (long)j);
        } else if (orc[r].resolved)
            for (size_t j = orc[r].idx; j < total; ++j)
                if (loc[j] >= beg && loc[j] < beg + n) {
                    oracle_fail("write-region-overlaps-unconsumed", r, (long)beg, (long)j);
                    break;
                }
    }
    if (!big && beg + n <= ch.capacity)
        for (size_t j = 0; j < n; ++j) p[j] = payload(total + j);
    pend_beg = beg; pend_len = n; pending = 1;
    printf("wok %zu", beg); digest();
}

static void do_wcommit(void)
{
    // channel_write_unmap with nothing mapped is within the rules (source.c: abort, then the unconditional unmap, when the camera
    // hands out an empty frame): it commits [head, mapped), which is empty after a commit or an abort — and is the region of a write
    // whose commit was refused earlier, if the channel accepts writes again
    size_t head0 = ch.head;
    if (!pending) { pend_beg = ch.head; pend_len = ch.mapped - ch.head; }
    channel_write_unmap(&ch);
    if (ch.head != head0) {
        // committed: the region [pend_beg, pend_beg+pend_len) is now stream data
        if (big) {
            if (nseg >= MAXSEG) { printf("stream-limit\n"); exit(3); }
            if (pend_len) { seg[nseg].sidx = total; seg[nseg].len = pend_len; seg[nseg].off = pend_beg; ++nseg; }
        } else if (total + pend_len >= MAXSTREAM) { printf("stream-limit\n"); exit(3); }
        for (size_t j = 0; !big && j < pend_len; ++j) {
            stream[total + j] = payload(total + j);
            loc[total + j] = pend_beg + j;
        }
        total += pend_len;
        if (pend_len && nbounds < (1 << 16)) bounds[nbounds++] = total;
    }
    pending = 0;
    printf("ok"); digest();
}

static void do_wabort(void)
{
    if (!pending) { illformed(); return; }
    channel_abort_write(&ch);
    pending = 0;
    printf("ok"); digest();
}

static void after_read_map(int r, struct slice sl, int was_mapped)
{
    size_t len = (size_t)(sl.end - sl.beg);
    if (sl.end < sl.beg) { oracle_fail("read-region-negative", r, 0, 0); len = 0; }
    size_t beg = len ? (size_t)(sl.beg - ch.data) : 0;
    printf("slice %zu %zu st=%d", beg, len, (int)rd[r].status);
    // C01.6: within the usage rules a reader's status never leaves Channel_Ok (an error status means the writer lapped it)
    if (!was_mapped && rd[r].status != Channel_Ok) oracle_fail("reader-status-not-ok", r, (long)rd[r].status, (long)total);
    if (len) {
        if (beg + len > ch.capacity) oracle_fail("read-region-outside-buffer", r, (long)beg, (long)len);
        if (frame_mode && beg % 8) oracle_fail("frame-region-misaligned", r, (long)beg, (long)len);
        if (!orc[r].resolved) {
            // C01: the reader starts at a write boundary no later than its join
            int found = 0;
            for (size_t b = orc[r].nbounds_at_join; b-- > 0;) {
                size_t j0 = bounds[b];
                if (j0 + len > total) continue;
                if (beg + len <= ch.capacity && (big ? seg_contiguous_at(j0, len, beg) : memcmp(ch.data + beg, stream + j0, len) == 0)) {
                    orc[r].idx = j0; orc[r].resolved = 1; found = 1; break;
                }
            }
            if (!found) oracle_fail("join-not-at-write-boundary", r, (long)beg, (long)len);
        }
        if (orc[r].resolved) {
            if (orc[r].idx + len > total) oracle_fail("read-region-beyond-committed", r, (long)orc[r].idx, (long)len);
            else if (beg + len <= ch.capacity && (big ? !seg_contiguous_at(orc[r].idx, len, beg) : memcmp(ch.data + beg, stream + orc[r].idx, len) != 0))
                oracle_fail("read-bytes-not-next-in-stream", r, (long)beg, (long)orc[r].idx);
            if (frame_mode && !(is_boundary(orc[r].idx) && is_boundary(orc[r].idx + len)))
                oracle_fail("frame-region-not-whole-frames", r, (long)orc[r].idx, (long)len);
            printf(" ix=%zu", orc[r].idx);
        }
        orc[r].mapped = 1; orc[r].mbeg = beg; orc[r].mlen = len;
    } else if (!was_mapped && rd[r].status == Channel_Ok) {
        // C01: empty means drained
        if (orc[r].resolved && orc[r].idx != total)
            oracle_fail("empty-but-not-drained", r, (long)orc[r].idx, (long)total);
        if (!orc[r].resolved && total > orc[r].total_at_join)
            oracle_fail("empty-but-not-drained", r, -1, (long)total);
    } else if (was_mapped) {
        // usage error (map while mapped): the implementation skips the reader ahead
        orc[r].mapped = 0; orc[r].resolved = 1; orc[r].idx = total;
    }
    digest();
}

static void do_join(void)
{
    if (nrd >= 8) { illformed(); return; }
    int r = nrd++;
    memset(&rd[r], 0, sizeof(rd[r]));
    orc[r].resolved = 0; orc[r].total_at_join = total; orc[r].nbounds_at_join = nbounds; orc[r].mapped = 0;
    struct slice sl = channel_read_map(&ch, &rd[r]);
    after_read_map(r, sl, 0);
}

static void do_rmap(int r)
{
    if (r < 0 || r >= nrd || rd[r].state == ChannelState_Mapped) { illformed(); return; }
    int was = 0;
    struct slice sl = channel_read_map(&ch, &rd[r]);
    after_read_map(r, sl, was);
}

static void do_runmap(int r, size_t k)
{
    if (r < 0 || r >= nrd) { illformed(); return; }
    int was = rd[r].state == ChannelState_Mapped;
    channel_read_unmap(&ch, &rd[r], k);
    if (was && orc[r].mapped) {
        size_t adv = k < orc[r].mlen ? k : orc[r].mlen;
        orc[r].idx += adv;
        orc[r].mapped = 0;
    }
    printf("ok"); digest();
}

int main(void)
{
    stream = malloc(MAXSTREAM);
    loc = malloc(MAXSTREAM * sizeof(size_t));
    char line[256];
    setvbuf(stdout, 0, _IOFBF, 1 << 16);
    while (fgets(line, sizeof line, stdin)) {
        char op[32]; long a = 0, b = 0;
        int n = sscanf(line, "%31s %ld %ld", op, &a, &b);
        if (n < 1) continue;
        if (!strcmp(op, "framemode") && n == 2) { frame_mode = (int)a; continue; }
        if (!strcmp(op, "new") && n == 2) do_new((size_t)a);
        else if (!have_channel) { printf("bad-op\n"); continue; }
        else if (!strcmp(op, "wmap") && n == 2) do_wmap((size_t)a);
        else if (!strcmp(op, "wcommit")) do_wcommit();
        else if (!strcmp(op, "wabort")) do_wabort();
        else if (!strcmp(op, "accept") && n == 2) { channel_accept_writes(&ch, (uint32_t)a); printf("ok"); digest(); }
        else if (!strcmp(op, "join")) do_join();
        else if (!strcmp(op, "rmap") && n == 2) do_rmap((int)a);
        else if (!strcmp(op, "runmap") && n == 3) do_runmap((int)a, (size_t)b);
        else printf("bad-op\n");
        if (g_lock_depth != 0) { oracle_fail("lock-depth", g_lock_depth, 0, 0); g_lock_depth = 0; }
        check_mapped_regions_stable();
        oracle_flush();
    }
    fflush(stdout);
    return 0;
}
