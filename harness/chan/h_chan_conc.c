// Concurrent co-simulation + oracle harness for the REAL channel.c on detsched
// (deterministic scheduler behind the repo's platform API).  Property C03.
//
// stdin:
//   cap <n>
//   pre <op>                 sequential set-up operations (same syntax as h_chan_seq)
//   thread <op> ; <op> ...   one line per worker thread (tids 1,2,...)
//   run <t,t,t,...>          explicit schedule prefix (all tids incl. main=0); continues LOWEST
// For every `run` a child process executes the scenario under detsched and prints
//   RUN
//   D <tid> <kind> | <digest>        one line per scheduler decision (state BEFORE the step)
//   P <tid:kind:enabled> ...         pending operation of every thread at that decision
//   R <tid> <k> <result>             worker <tid> finished its k-th operation
//   ORACLE lost-wakeup <tid> <n>     a writer sleeps although its request is admissible / refused
//   ORACLE write-overlaps-unconsumed <tid> <beg> <n> <reader>   (C01/C02) the region just handed to the writer covers bytes a
//                                    registered reader has not consumed (or the reader has been lapped)
//   END <ok|DEADLOCK|HANG|STEP-LIMIT|MISUSE|CRASH>
#define _GNU_SOURCE
#include <sys/prctl.h>
#include <signal.h>
#include "runtime/channel.c" // wrapper TU (the struct definitions; no static function of channel.c is called from here)
#include "detsched.h"

#include <stdio.h>
#include <stdlib.h>
#include <string.h>
#include <sys/wait.h>
#include <unistd.h>

#define MAXT 8
#define MAXOPS 16
#define MAXR 8

struct op
{
    char name[12];
    long a, b;
};

static struct channel ch;
static struct channel_reader rd[MAXR];
static int nrd;
static size_t cap = 16;
static struct op pre[256];
static int npre;
static struct op prog[MAXT][MAXOPS];
static int nprog[MAXT];
static int nthreads;
static struct thread threads[MAXT];
// what each worker is doing (for the oracle)
static volatile long cur_wmap_n[MAXT + 1]; // >0 while inside channel_write_map(n)

// C01/C02 oracle on a region the writer was just handed.  Implementation state only: the bookmarks of the registered
// readers.  Between the placement (under the lock) and this check a reader can only have advanced, so the check never
// raises an alarm for a placement that was right when it was made.
static void check_write_region(int tid, size_t beg, size_t n)
{
    if (beg + n > ch.capacity) printf("ORACLE write-overlaps-unconsumed %d %zu %zu -1\n", tid, beg, n);
    for (unsigned i = 0; i < ch.holds.n && i < MAXR; ++i) {
        const size_t pos = ch.holds.pos[i], cyc = ch.holds.cycles[i];
        int bad = 0;
        if (cyc == ch.cycle) bad = 0;                                   // unconsumed = [pos, head): in front of the region
        else if (cyc + 1 == ch.cycle) bad = pos < ch.high && beg + n > pos; // unconsumed = [pos, high) and [0, head)
        else bad = 1;                                                   // lapped
        if (bad) printf("ORACLE write-overlaps-unconsumed %d %zu %zu %u\n", tid, beg, n, i);
    }
}

static int parse_op(char* text, struct op* o)
{
    memset(o, 0, sizeof(*o));
    int n = sscanf(text, "%11s %ld %ld", o->name, &o->a, &o->b);
    return n >= 1;
}

static void digest(FILE* f)
{
    fprintf(f, "%zu %zu %zu %zu %d %u [", ch.head, ch.high, ch.cycle, ch.mapped, ch.is_accepting_writes ? 1 : 0, ch.holds.n);
    for (unsigned i = 0; i < ch.holds.n && i < 8; ++i)
        fprintf(f, "%s%zu:%zu", i ? " " : "", ch.holds.pos[i], ch.holds.cycles[i]);
    fprintf(f, "] | [");
    for (int i = 0; i < nrd; ++i)
        fprintf(f, "%s%u:%zu:%zu:%d:%d", i ? " " : "", rd[i].id, rd[i].pos, rd[i].cycle, (int)rd[i].status,
                rd[i].state == ChannelState_Mapped ? 1 : 0);
    fprintf(f, "]");
}

static void exec_op(int tid, int k, const struct op* o)
{
    char res[96];
    if (!strcmp(o->name, "wmap")) {
        cur_wmap_n[tid] = o->a;
        unsigned char* p = (unsigned char*)channel_write_map(&ch, (size_t)o->a);
        cur_wmap_n[tid] = 0;
        if (p && tid >= 0) check_write_region(tid, (size_t)(p - ch.data), (size_t)o->a);
        if (p) snprintf(res, sizeof res, "wok %zu", (size_t)(p - ch.data));
        else snprintf(res, sizeof res, "null");
    } else if (!strcmp(o->name, "wcommit")) {
        channel_write_unmap(&ch); snprintf(res, sizeof res, "ok");
    } else if (!strcmp(o->name, "wabort")) {
        channel_abort_write(&ch); snprintf(res, sizeof res, "ok");
    } else if (!strcmp(o->name, "accept")) {
        channel_accept_writes(&ch, (uint32_t)o->a); snprintf(res, sizeof res, "ok");
    } else if (!strcmp(o->name, "join")) {
        int r = nrd++;
        memset(&rd[r], 0, sizeof(rd[r]));
        struct slice sl = channel_read_map(&ch, &rd[r]);
        size_t len = (size_t)(sl.end - sl.beg);
        snprintf(res, sizeof res, "slice %zu %zu st=%d", len ? (size_t)(sl.beg - ch.data) : 0, len, (int)rd[r].status);
    } else if (!strcmp(o->name, "rmap")) {
        struct slice sl = channel_read_map(&ch, &rd[o->a]);
        size_t len = (size_t)(sl.end - sl.beg);
        snprintf(res, sizeof res, "slice %zu %zu st=%d", len ? (size_t)(sl.beg - ch.data) : 0, len, (int)rd[o->a].status);
    } else if (!strcmp(o->name, "runmap")) {
        channel_read_unmap(&ch, &rd[o->a], (size_t)o->b); snprintf(res, sizeof res, "ok");
    } else {
        snprintf(res, sizeof res, "bad-op");
    }
    if (tid >= 0) printf("R %d %d %s\n", tid, k, res);
}

static void worker(void* arg)
{
    int t = (int)(intptr_t)arg; // 0-based worker index, tid = t+1
    for (int k = 0; k < nprog[t]; ++k)
        exec_op(t + 1, k, &prog[t][k]);
}

static void on_event(void* ctx, const struct detsched_event* ev)
{
    (void)ctx;
    printf("D %d %s | ", ev->tid, detsched_kind_name(ev->kind));
    digest(stdout);
    printf("\nP");
    int n = detsched_thread_count();
    for (int t = 0; t < n; ++t) {
        int obj = -1, en = 0;
        int kind = detsched_thread_pending(t, &obj, &en);
        printf(" %d:%s:%d", t, kind < 0 ? "-" : detsched_kind_name(kind), en);
    }
    printf("\n");
}

// the harness's own reading of "is there room for n bytes now?", from the struct fields only (the placement rule of the
// ring: the bookmark of the reader that is furthest behind bounds the writer).  Independent of channel.c's static helpers,
// so that a change of their signatures or internals does not stop the harness from compiling.
static int spec_has_room(size_t n)
{
    size_t tail = ch.holds.pos[0], tcyc = ch.holds.cycles[0];
    for (unsigned i = 1; i < ch.holds.n && i < MAXR; ++i)
        if (ch.holds.cycles[i] < tcyc || (ch.holds.cycles[i] == tcyc && ch.holds.pos[i] < tail)) {
            tail = ch.holds.pos[i]; tcyc = ch.holds.cycles[i];
        }
    if (ch.head < tail) return n <= tail - ch.head;          // writer a lap ahead: only the gap up to the slowest reader
    if (tail == ch.head && ch.cycle == tcyc + 1) return 0;   // exactly full
    if (n <= ch.capacity - ch.head) return 1;                // room behind the data
    if (n <= tail) return 1;                                 // room in front of the slowest reader
    if (tail == ch.head) return n < ch.capacity;             // everything consumed: start over
    return 0;
}

static void on_terminal(void* ctx, int code)
{
    (void)ctx;
    // C03 oracle: a writer asleep although its wait condition is false
    for (int t = 1; t <= nthreads; ++t) {
        long n = cur_wmap_n[t];
        if (n <= 0) continue;
        int admissible = !ch.is_accepting_writes || ch.holds.n == 0 || spec_has_room((size_t)n);
        if (admissible) printf("ORACLE lost-wakeup %d %ld\n", t, n);
        else printf("NOTE writer %d waits for space (n=%ld): environment does not consume\n", t, n);
    }
    const char* what = code == DETSCHED_EXIT_DEADLOCK ? "DEADLOCK" : code == DETSCHED_EXIT_HANG ? "HANG"
                     : code == DETSCHED_EXIT_STEP_LIMIT ? "STEP-LIMIT" : "MISUSE";
    printf("F ");
    digest(stdout);
    printf("\nEND %s\n", what);
    fflush(stdout);
}

static void body(void* arg)
{
    (void)arg;
    channel_new(&ch, cap);
    nrd = 0;
    for (int i = 0; i < npre; ++i)
        exec_op(-1, i, &pre[i]);
    printf("SETUP-DONE\n");
    for (int t = 0; t < nthreads; ++t) {
        thread_init(&threads[t]);
        thread_create(&threads[t], worker, (void*)(intptr_t)t);
    }
    for (int t = 0; t < nthreads; ++t)
        thread_join(&threads[t]);
}

static void run_child(const char* sched_text)
{
    int* sched = 0;
    size_t ns = detsched_parse_schedule(sched_text, &sched);
    struct detsched_config cfg;
    detsched_config_default(&cfg);
    cfg.mode = DETSCHED_EXPLICIT;
    cfg.default_policy = DETSCHED_LOWEST;
    cfg.schedule = sched;
    cfg.nschedule = ns;
    cfg.step_limit = 2000;
    cfg.hang_rounds = 0;
    cfg.on_event = on_event;
    cfg.on_terminal = on_terminal;
    detsched_init(&cfg);
    // sequential set-up happens inside the scheduler too (main is the only thread: no decisions branch)
    printf("RUN\n");
    detsched_run_main(body, 0);
    printf("F ");
    digest(stdout);
    printf("\nEND ok\n");
    fflush(stdout);
    _exit(0);
}

// the set-up operations run before detsched_run_main: give the platform calls a managed context
int main(void)
{
    char line[1024];
    setvbuf(stdout, 0, _IOFBF, 1 << 16);
    while (fgets(line, sizeof line, stdin)) {
        char* p = line;
        while (*p == ' ') ++p;
        if (!strncmp(p, "cap ", 4)) {
            cap = (size_t)atol(p + 4); npre = 0; nthreads = 0;
        } else if (!strncmp(p, "pre ", 4)) {
            if (npre < 256 && parse_op(p + 4, &pre[npre])) ++npre;
        } else if (!strncmp(p, "thread ", 7)) {
            if (nthreads >= MAXT) continue;
            int t = nthreads++;
            nprog[t] = 0;
            char* save = 0;
            for (char* tok = strtok_r(p + 7, ";\n", &save); tok; tok = strtok_r(0, ";\n", &save)) {
                while (*tok == ' ') ++tok;
                if (*tok && nprog[t] < MAXOPS && parse_op(tok, &prog[t][nprog[t]])) ++nprog[t];
            }
        } else if (!strncmp(p, "run", 3)) {
            fflush(stdout);
            pid_t pid = fork();
            if (pid == 0) { prctl(PR_SET_PDEATHSIG, SIGKILL); run_child(p + 3); }
            int st = 0;
            waitpid(pid, &st, 0);
            if (WIFSIGNALED(st)) { printf("END CRASH signal=%d\n", WTERMSIG(st)); }
            else if (WIFEXITED(st) && WEXITSTATUS(st) != 0 && (WEXITSTATUS(st) < 40 || WEXITSTATUS(st) > 43))
                printf("END CRASH exit=%d\n", WEXITSTATUS(st));
            fflush(stdout);
        }
    }
    return 0;
}
