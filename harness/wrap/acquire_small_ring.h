// Wrapper: compile the REAL acquire.c with the ring capacity (hard-wired to 1 GiB in acquire_init)
// replaced by verif_ring_capacity().  A function-like macro is not re-expanded inside its own
// expansion, so the real video_sink_init / video_filter_init are still what gets called.
#include "runtime/sink.h"
#include "runtime/filter.h"
#include <stddef.h>
size_t verif_ring_capacity(void);
#define video_sink_init(a, b, c, d) video_sink_init(a, b, verif_ring_capacity(), d)
#define video_filter_init(a, b, c, d) video_filter_init(a, b, verif_ring_capacity(), d)
// acquire.c's calls of channel_accept_writes go through the harness, which hides the ones on a filter's queue from the
// co-simulation: M1 has averaging off, nothing ever writes to filter.in, so whether it accepts writes is outside M1's vocabulary
void verif_accept_writes(struct channel* ch, int v);
#define channel_accept_writes(ch, v) verif_accept_writes(ch, v)
#include "acquire.c"
#undef channel_accept_writes
#undef video_sink_init
#undef video_filter_init
