// C12: the device manager is a C API; these calls are made from C so that a `kind` outside the
// enumerators reaches the implementation the way a C client passes it (an int converted to the
// enum type: implementation-defined in C, not undefined).
#include "device/hal/device.manager.h"
#include <stdint.h>

enum DeviceStatusCode
c12_select(const struct DeviceManager* dm, uint32_t kind, const char* name, size_t n, struct DeviceIdentifier* out)
{
    return device_manager_select(dm, (enum DeviceKind)kind, name, n, out);
}

enum DeviceStatusCode
c12_select_first(const struct DeviceManager* dm, uint32_t kind, struct DeviceIdentifier* out)
{
    return device_manager_select_first(dm, (enum DeviceKind)kind, out);
}

enum DeviceStatusCode
c12_select_default(const struct DeviceManager* dm, uint32_t kind, struct DeviceIdentifier* out)
{
    return device_manager_select_default(dm, (enum DeviceKind)kind, out);
}
