// C12 harness: the REAL device.manager.cpp + loader.c + driver.c (+ logger.c, platform.c,
// props/device.c) of the repository, loading the REAL libacquire-driver-common.so and the mock
// drivers that the check placed next to this executable.
//
// stdin: one operation per line (configuration lines `cfg`, `slot`, `dev` describe what the check
// laid out on disk; they are for the model and are skipped here).  stdout: one canonical result
// line per operation, optionally followed by `ORACLE <kind> ...` lines.
//
//   init                       -> ok count=N | err
//   count                      -> N
//   get <index>                -> ok d=<driver>:<device> k=<kind> n=<hexname> | err
//   getdrv <driver_id>         -> present | null
//   getdrvnull                 -> null                      (identifier == NULL)
//   nullself                   -> every entry point with self == NULL and self->impl == NULL
//   open <index>               -> ok id=<device> k=<kind> n=<hexname> | err    (get, get_driver, driver_open_device)
//   openh <index>              -> the same, after every other enumerated device has been opened and closed in the same process
//   first <kind>               -> ok ... | err
//   default <kind>             -> ok ... | err
//   sel <kind> <hex|-|NULL> <len>  -> (ok ... | err) | re=<ok|bad> mv=<bits>
//   destroy                    -> ok | err                 (device_manager_destroy; last operation)
//
// Every operation after `init` runs in a forked child under a watchdog (libstdc++'s backtracking
// matcher is exponential for some patterns; C12 says nothing about time):
//   `timeout`                   the implementation call did not return in time (not a violation)
//   `<result> | inconclusive`   the call returned, the harness's own regex evaluation did not
//   `CRASH signal=N|exit=N`     the implementation call killed the process (violation)
//
// The part after ` | ` is computed by the harness with its OWN std::regex / std::regex_match
// (icase) calls over the enumerated names: `re` = does the pattern (the C string of the name
// argument) compile, `mv[i]` = does the whole name of enumerated identifier i match.  These are
// the engine verdicts handed to the Lean model (layer 1) and the basis of the oracle, which looks
// only at the implementation's behaviour:
//   status in {Ok, Err}; Ok => the identifier is enumerated, of the requested kind, and its whole
//   name matches (or the pattern is empty); for NUL-free and NUL-padded patterns also: Ok => it is
//   the FIRST such identifier, Err => there is none (or the pattern does not compile, or the name
//   is NULL with a non-zero length).
#include <sys/prctl.h>
#include <signal.h>
#include "device/hal/device.manager.h"
#include "device/hal/driver.h"
#include "device/props/device.h"
#include "logger.h"

#include <poll.h>
#include <signal.h>
#include <sys/wait.h>
#include <unistd.h>

#include <chrono>
#include <cstdint>
#include <cstdio>
#include <cstdlib>
#include <cstring>
#include <iostream>
#include <regex>
#include <sstream>
#include <string>
#include <vector>

extern "C"
{
    enum DeviceStatusCode c12_select(const struct DeviceManager* dm, uint32_t kind, const char* name, size_t n, struct DeviceIdentifier* out);
    enum DeviceStatusCode c12_select_first(const struct DeviceManager* dm, uint32_t kind, struct DeviceIdentifier* out);
    enum DeviceStatusCode c12_select_default(const struct DeviceManager* dm, uint32_t kind, struct DeviceIdentifier* out);
}

static int g_verbose = 0;
static unsigned long g_log_msgs = 0;

static void
reporter(int is_error, const char* file, int line, const char* function, const char* msg)
{
    ++g_log_msgs;
    if (g_verbose)
        fprintf(stderr, "%s %s:%d %s: %s\n", is_error ? "E" : "I", file, line, function, msg);
}

static std::string
hex(const char* s, size_t n)
{
    if (!n)
        return "-";
    static const char* d = "0123456789abcdef";
    std::string o;
    for (size_t i = 0; i < n; ++i) {
        unsigned char c = (unsigned char)s[i];
        o += d[c >> 4];
        o += d[c & 15];
    }
    return o;
}

static bool
unhex(const std::string& h, std::string& out)
{
    out.clear();
    if (h == "-")
        return true;
    if (h.size() % 2)
        return false;
    auto v = [](char c) { return c >= '0' && c <= '9' ? c - '0' : c >= 'a' && c <= 'f' ? c - 'a' + 10 : -1; };
    for (size_t i = 0; i < h.size(); i += 2) {
        int a = v(h[i]), b = v(h[i + 1]);
        if (a < 0 || b < 0)
            return false;
        out += (char)(a * 16 + b);
    }
    return true;
}

static std::string
name_of(const DeviceIdentifier& id)
{
    return std::string(id.name, strnlen(id.name, sizeof(id.name)));
}

static std::string
show_ident(const DeviceIdentifier& id)
{
    std::ostringstream o;
    std::string n = name_of(id);
    o << "d=" << (unsigned)id.driver_id << ":" << (unsigned)id.device_id << " k=" << (unsigned)id.kind
      << " n=" << hex(n.data(), n.size());
    return o.str();
}

static bool
same_ident(const DeviceIdentifier& a, const DeviceIdentifier& b)
{
    return a.driver_id == b.driver_id && a.device_id == b.device_id && (unsigned)a.kind == (unsigned)b.kind &&
           name_of(a) == name_of(b);
}

static DeviceManager g_dm = { 0 };
static std::vector<DeviceIdentifier> g_enum; // identifiers obtained through device_manager_get at init
static std::vector<char> g_enum_ok;
static int g_out_fd = -1;                    // child -> parent

static void
emit(char tag, const std::string& s)
{
    std::string m;
    m += tag;
    m += ' ';
    m += s;
    m += '\n';
    const char* p = m.data();
    size_t n = m.size();
    while (n) {
        ssize_t w = write(g_out_fd, p, n);
        if (w <= 0)
            break;
        p += w;
        n -= (size_t)w;
    }
}

struct ChildOut
{
    bool gotA = false, gotB = false;
    std::string a, b;
    std::vector<std::string> oracle;
    int how = 0; // 0 exited 0, 1 timeout, 2 signal, 3 non-zero exit
    int code = 0;
};

template<class F>
static ChildOut
run_child(F f, int watchdog_ms)
{
    ChildOut r;
    int p[2];
    if (pipe(p) != 0) {
        perror("pipe");
        exit(3);
    }
    fflush(stdout);
    fflush(stderr);
    pid_t pid = fork();
    if (pid < 0) {
        perror("fork");
        exit(3);
    }
    if (pid == 0) {
        prctl(PR_SET_PDEATHSIG, SIGKILL);
        close(p[0]);
        g_out_fd = p[1];
        f();
        _exit(0);
    }
    close(p[1]);
    std::string buf;
    auto t0 = std::chrono::steady_clock::now();
    bool timed_out = false;
    for (;;) {
        auto el = std::chrono::duration_cast<std::chrono::milliseconds>(std::chrono::steady_clock::now() - t0).count();
        int left = watchdog_ms - (int)el;
        if (left <= 0) {
            timed_out = true;
            break;
        }
        struct pollfd pf = { p[0], POLLIN, 0 };
        int k = poll(&pf, 1, left);
        if (k < 0) {
            if (errno == EINTR)
                continue;
            break;
        }
        if (k == 0) {
            timed_out = true;
            break;
        }
        char tmp[4096];
        ssize_t n = read(p[0], tmp, sizeof(tmp));
        if (n <= 0)
            break; // EOF: child closed the pipe (exited or died)
        buf.append(tmp, (size_t)n);
    }
    close(p[0]);
    if (timed_out)
        kill(pid, SIGKILL);
    int st = 0;
    waitpid(pid, &st, 0);
    if (timed_out)
        r.how = 1;
    else if (WIFSIGNALED(st)) {
        r.how = 2;
        r.code = WTERMSIG(st);
    } else if (WIFEXITED(st) && WEXITSTATUS(st) != 0) {
        r.how = 3;
        r.code = WEXITSTATUS(st);
    }
    std::istringstream is(buf);
    std::string line;
    while (std::getline(is, line)) {
        if (line.size() < 2)
            continue;
        std::string body = line.substr(2);
        if (line[0] == 'A') {
            r.gotA = true;
            r.a = body;
        } else if (line[0] == 'B') {
            r.gotB = true;
            r.b = body;
        } else if (line[0] == 'O')
            r.oracle.push_back(body);
    }
    return r;
}

static void
print_child(const ChildOut& r, bool has_b)
{
    if (!r.gotA) {
        if (r.how == 1)
            printf("timeout\n");
        else if (r.how == 2)
            printf("CRASH signal=%d\n", r.code);
        else if (r.how == 3)
            printf("CRASH exit=%d\n", r.code);
        else
            printf("CRASH no-result\n");
        return;
    }
    if (has_b && !r.gotB) {
        printf("%s | inconclusive %s\n", r.a.c_str(), r.how == 1 ? "timeout" : r.how == 2 ? "signal" : "exit");
        return;
    }
    if (has_b)
        printf("%s | %s\n", r.a.c_str(), r.b.c_str());
    else
        printf("%s\n", r.a.c_str());
    for (const auto& o : r.oracle)
        printf("ORACLE %s\n", o.c_str());
}

static std::string
show_status(int st, const DeviceIdentifier& out)
{
    if (st == Device_Ok)
        return "ok " + show_ident(out);
    if (st == Device_Err)
        return "err";
    return "status=" + std::to_string(st);
}

static void
sentinel(DeviceIdentifier& id)
{
    memset(&id, 0, sizeof(id));
    id.driver_id = 0xEE;
    id.device_id = 0xEE;
    id.kind = DeviceKind_Unknown;
    strcpy(id.name, "<unset>");
}

// index of `id` among the enumerated identifiers, -1 if it is not one of them
static int
enum_index(const DeviceIdentifier& id)
{
    for (size_t i = 0; i < g_enum.size(); ++i)
        if (g_enum_ok[i] && same_ident(g_enum[i], id))
            return (int)i;
    return -1;
}

// the harness's own evaluation of the engine: whole-name, case-insensitive
static bool
own_verdicts(const std::string& pattern, std::vector<char>& mv)
{
    mv.assign(g_enum.size(), 0);
    try {
        std::regex re(pattern, std::regex_constants::ECMAScript | std::regex_constants::icase);
        for (size_t i = 0; i < g_enum.size(); ++i)
            mv[i] = std::regex_match(name_of(g_enum[i]), re) ? 1 : 0;
        return true;
    } catch (const std::regex_error&) {
        mv.assign(g_enum.size(), 0);
        return false;
    }
}

static void
op_select(uint32_t kind, bool is_null, const std::string& bytes, size_t len, bool with_history = false)
{
    // exactly `len` addressable bytes, so that any read past bytes_of_name is an ASan report
    char* buf = 0;
    if (!is_null) {
        buf = (char*)malloc(bytes.size());
        memcpy(buf, bytes.data(), bytes.size());
        len = bytes.size();
    }
    DeviceIdentifier out;
    if (with_history) {
        // the answer must not depend on earlier selections: a selection that matches some device of every kind, then this very
        // call once, and only then the call whose result is reported
        DeviceIdentifier scratch;
        for (uint32_t k2 = 0; k2 < 7; ++k2) {
            sentinel(scratch);
            (void)c12_select(&g_dm, k2, ".*", 2, &scratch);
        }
        sentinel(scratch);
        (void)c12_select(&g_dm, kind, buf, len, &scratch);
    }
    sentinel(out);
    int st = (int)c12_select(&g_dm, kind, buf, len, &out);
    emit('A', show_status(st, out));

    // ---- own verdicts (engine) for the C string of the argument
    std::string cpat = is_null ? std::string() : std::string(bytes.data(), strnlen(bytes.data(), bytes.size()));
    std::vector<char> mv;
    bool compiles = own_verdicts(cpat, mv);
    std::string bits;
    for (char c : mv)
        bits += c ? '1' : '0';
    if (bits.empty())
        bits = "-";
    emit('B', std::string("re=") + (compiles ? "ok" : "bad") + " mv=" + bits);

    // ---- oracle: the property, evaluated on the implementation's answer only
    if (st != Device_Ok && st != Device_Err) {
        emit('O', "bad-status " + std::to_string(st));
        return;
    }
    if (is_null && len > 0) {
        if (st == Device_Ok)
            emit('O', "ok-for-null-name-with-length");
        return;
    }
    size_t first_nul = bytes.find('\0');
    bool nul_free = first_nul == std::string::npos;
    bool padded_only = !nul_free && bytes.find_first_not_of('\0', first_nul) == std::string::npos;
    bool empty_pattern = cpat.empty() && (nul_free || padded_only); // "", NULL/0, or NULs only
    auto accepts = [&](size_t i) {
        return g_enum_ok[i] && (uint32_t)g_enum[i].kind == kind && (empty_pattern || (compiles && mv[i]));
    };
    if (st == Device_Ok) {
        int ix = enum_index(out);
        if (ix < 0) {
            emit('O', "ok-not-enumerated " + show_ident(out));
            return;
        }
        if ((uint32_t)out.kind != kind)
            emit('O', "ok-wrong-kind " + show_ident(out));
        // an embedded NUL that leaves an empty C string may be read either way (empty pattern / pattern "")
        bool must_match = !empty_pattern && !(!nul_free && !padded_only && cpat.empty());
        if (must_match && !compiles)
            emit('O', "ok-but-pattern-invalid");
        else if (must_match && !mv[(size_t)ix])
            emit('O', "ok-name-does-not-match " + show_ident(out));
        if (nul_free || padded_only) {
            // names may repeat across drivers: compare positions of the first accepted entry
            for (size_t i = 0; i < g_enum.size(); ++i)
                if (accepts(i)) {
                    if (!same_ident(g_enum[i], out))
                        emit('O', "ok-not-first expected " + show_ident(g_enum[i]) + " got " + show_ident(out));
                    break;
                }
        }
    } else if (nul_free || padded_only) {
        for (size_t i = 0; i < g_enum.size(); ++i)
            if (accepts(i)) {
                emit('O', "err-but-device-matches " + show_ident(g_enum[i]));
                break;
            }
    }
}

static void
op_first(uint32_t kind, bool dflt)
{
    DeviceIdentifier out;
    sentinel(out);
    int st = (int)(dflt ? c12_select_default(&g_dm, kind, &out) : c12_select_first(&g_dm, kind, &out));
    emit('A', show_status(st, out));
    if (st != Device_Ok && st != Device_Err) {
        emit('O', "bad-status " + std::to_string(st));
        return;
    }
    if (st == Device_Ok) {
        int ix = enum_index(out);
        if (ix < 0) {
            emit('O', "ok-not-enumerated " + show_ident(out));
            return;
        }
        if ((uint32_t)out.kind != kind)
            emit('O', "ok-wrong-kind " + show_ident(out));
        if (!dflt)
            for (size_t i = 0; i < g_enum.size(); ++i)
                if (g_enum_ok[i] && (uint32_t)g_enum[i].kind == kind) {
                    if (!same_ident(g_enum[i], out))
                        emit('O', "ok-not-first expected " + show_ident(g_enum[i]) + " got " + show_ident(out));
                    break;
                }
    } else if (!dflt) {
        for (size_t i = 0; i < g_enum.size(); ++i)
            if (g_enum_ok[i] && (uint32_t)g_enum[i].kind == kind) {
                emit('O', "err-but-device-of-kind-exists " + show_ident(g_enum[i]));
                break;
            }
    }
}

static void
op_get(uint32_t index)
{
    DeviceIdentifier out;
    sentinel(out);
    int st = (int)device_manager_get(&out, &g_dm, index);
    emit('A', show_status(st, out));
    if (st != Device_Ok && st != Device_Err)
        emit('O', "bad-status " + std::to_string(st));
    else if (index >= g_enum.size() && st == Device_Ok)
        emit('O', "get-ok-out-of-range " + std::to_string(index));
    else if (index < g_enum.size() && g_enum_ok[index] && (st != Device_Ok || !same_ident(out, g_enum[index])))
        emit('O', "get-changed " + std::to_string(index));
}

static void
op_getdrv(int driver_id)
{
    Driver* d = 0;
    if (driver_id < 0)
        d = device_manager_get_driver(&g_dm, 0);
    else {
        DeviceIdentifier id;
        sentinel(id);
        id.driver_id = (uint8_t)driver_id;
        d = device_manager_get_driver(&g_dm, &id);
    }
    // through the loader's forwarding wrapper, an open that the driver refuses — possibly after it had already stored a device in *out
    // and released it again (the mock driver does that for ids beyond its table) — is an error for the caller and nothing else: in
    // particular no close is issued for a device that was never opened successfully (the mock would free it twice: ASan).  Done before
    // the result line is written, so that a crash here is the result.
    if (d && driver_id >= 0) {
        Device* dev = 0;
        int st = (int)d->open(d, 1000 + (uint64_t)driver_id, &dev);
        if (st == Device_Ok)
            emit('O', "open-of-an-out-of-range-device-id-succeeded " + std::to_string(driver_id));
    }
    emit('A', d ? "present" : "null");
}

static void
op_open(uint32_t index)
{
    DeviceIdentifier id;
    sentinel(id);
    if (device_manager_get(&id, &g_dm, index) != Device_Ok) {
        emit('A', "err");
        if (index < g_enum.size() && g_enum_ok[index])
            emit('O', "open-get-failed " + std::to_string(index));
        return;
    }
    Driver* d = device_manager_get_driver(&g_dm, &id);
    Device* dev = 0;
    int st = (int)driver_open_device(d, id.device_id, &dev);
    if (st == Device_Ok && dev) {
        std::ostringstream o;
        std::string n = name_of(dev->identifier);
        o << "ok id=" << (unsigned)dev->identifier.device_id << " k=" << (unsigned)dev->identifier.kind
          << " n=" << hex(n.data(), n.size());
        emit('A', o.str());
        if ((unsigned)dev->identifier.kind != (unsigned)id.kind || n != name_of(id))
            emit('O', "open-differs-from-enumeration " + show_ident(id) + " opened " + o.str());
        if (dev->driver != d)
            emit('O', "open-driver-not-set");
        if (driver_close_device(dev) != Device_Ok)
            emit('O', "close-failed " + show_ident(id));
    } else {
        emit('A', st == Device_Err ? "err" : "status=" + std::to_string(st));
        emit('O', "open-failed-for-enumerated-identifier " + show_ident(id));
    }
}

// open through the HAL's own entry points (camera_open / storage_open: what the runtime calls), for identifiers whose driver is a real
// driver library (the common driver, possibly loaded a second time under an optional driver's name: driver_id > 0)
extern "C" {
struct Camera* camera_open(const struct DeviceManager* system, const struct DeviceIdentifier* identifier);
void camera_close(struct Camera* camera);
struct Storage* storage_open(const struct DeviceManager* system, const struct DeviceIdentifier* identifier);
void storage_close(struct Storage* self);
}
static void
op_hopen(uint32_t index)
{
    DeviceIdentifier id;
    sentinel(id);
    if (device_manager_get(&id, &g_dm, index) != Device_Ok) {
        emit('A', "err");
        return;
    }
    Device* dev = 0;
    void* handle = 0;
    if (id.kind == DeviceKind_Camera) {
        Camera* c = camera_open(&g_dm, &id);
        handle = c;
        if (c) dev = (Device*)c;   // struct Camera begins with its struct Device
    } else if (id.kind == DeviceKind_Storage) {
        Storage* st = storage_open(&g_dm, &id);
        handle = st;
        if (st) dev = (Device*)st;
    } else {
        emit('A', "skip");
        return;
    }
    if (!handle) {
        emit('A', "err");
        emit('O', "hal-open-failed-for-enumerated-identifier " + show_ident(id));
        return;
    }
    std::ostringstream o;
    std::string n = name_of(dev->identifier);
    o << "ok id=" << (unsigned)dev->identifier.device_id << " k=" << (unsigned)dev->identifier.kind << " n=" << hex(n.data(), n.size());
    emit('A', o.str());
    if ((unsigned)dev->identifier.kind != (unsigned)id.kind || n != name_of(id))
        emit('O', "open-differs-from-enumeration " + show_ident(id) + " opened " + o.str());
    if (id.kind == DeviceKind_Camera) camera_close((Camera*)handle);
    else storage_close((Storage*)handle);
}

static void
op_nullself()
{
    DeviceManager z = { 0 };
    DeviceIdentifier id;
    sentinel(id);
    std::ostringstream o;
    o << "count=" << device_manager_count(0) << "," << device_manager_count(&z);
    o << " get=" << (int)device_manager_get(&id, 0, 0) << "," << (int)device_manager_get(&id, &z, 0);
    o << " sel=" << (int)c12_select(0, 1, "a", 1, &id) << "," << (int)c12_select(&z, 1, "a", 1, &id);
    o << " first=" << (int)c12_select_first(0, 1, &id) << "," << (int)c12_select_first(&z, 1, &id);
    o << " default=" << (int)c12_select_default(0, 1, &id) << "," << (int)c12_select_default(&z, 1, &id);
    o << " drv=" << (device_manager_get_driver(0, &id) ? 1 : 0) << "," << (device_manager_get_driver(&z, &id) ? 1 : 0);
    o << " destroy=" << (int)device_manager_destroy(0) << "," << (int)device_manager_destroy(&z);
    o << " init=" << (int)device_manager_init(0, reporter);
    emit('A', o.str());
}

int
main(int argc, char** argv)
{
    int watchdog_ms = 2000;
    for (int i = 1; i < argc; ++i) {
        if (!strcmp(argv[i], "--watchdog-ms") && i + 1 < argc)
            watchdog_ms = atoi(argv[++i]);
        else if (!strcmp(argv[i], "-v"))
            g_verbose = 1;
    }
    signal(SIGPIPE, SIG_IGN);
    logger_set_reporter(reporter);
    bool inited = false;
    std::string line;
    while (std::getline(std::cin, line)) {
        std::istringstream is(line);
        std::string op;
        if (!(is >> op))
            continue;
        if (op == "cfg" || op == "slot" || op == "dev")
            continue;
        if (op == "init") {
            if (inited) {
                printf("bad-op\n");
                continue;
            }
            int st = (int)device_manager_init(&g_dm, reporter);
            if (st != Device_Ok) {
                printf("err\n");
                continue;
            }
            inited = true;
            uint32_t n = device_manager_count(&g_dm);
            g_enum.resize(n);
            g_enum_ok.assign(n, 0);
            for (uint32_t i = 0; i < n; ++i) {
                sentinel(g_enum[i]);
                g_enum_ok[i] = device_manager_get(&g_enum[i], &g_dm, i) == Device_Ok;
            }
            printf("ok count=%u\n", n);
            fflush(stdout);
            continue;
        }
        if (!inited) {
            printf("bad-op\n");
            continue;
        }
        if (op == "count") {
            ChildOut r = run_child([&] { emit('A', std::to_string(device_manager_count(&g_dm))); }, watchdog_ms);
            print_child(r, false);
        } else if (op == "get") {
            unsigned long long i = 0;
            is >> i;
            ChildOut r = run_child([&] { op_get((uint32_t)i); }, watchdog_ms);
            print_child(r, false);
        } else if (op == "getdrv") {
            int i = 0;
            is >> i;
            ChildOut r = run_child([&] { op_getdrv(i & 0xff); }, watchdog_ms);
            print_child(r, false);
        } else if (op == "getdrvnull") {
            ChildOut r = run_child([&] { op_getdrv(-1); }, watchdog_ms);
            print_child(r, false);
        } else if (op == "nullself") {
            ChildOut r = run_child([&] { op_nullself(); }, watchdog_ms);
            print_child(r, false);
        } else if (op == "open") {
            unsigned long long i = 0;
            is >> i;
            ChildOut r = run_child([&] { op_open((uint32_t)i); }, watchdog_ms);
            print_child(r, false);
        } else if (op == "hopen2") {
            // the same open after a second device manager has come and gone in the same process: what one manager's shutdown releases
            // must not be something the other one still needs (driver-global tables)
            unsigned long long i = 0;
            is >> i;
            ChildOut r = run_child([&] {
                DeviceManager other = { 0 };
                if (device_manager_init(&other, reporter) == Device_Ok) device_manager_destroy(&other);
                op_hopen((uint32_t)i);
            }, watchdog_ms);
            print_child(r, false);
        } else if (op == "hopen") {
            unsigned long long i = 0;
            is >> i;
            ChildOut r = run_child([&] { op_hopen((uint32_t)i); }, watchdog_ms);
            print_child(r, false);
        } else if (op == "openh") {
            // history independence of open: every other enumerated device (of every driver) is opened and closed first, in the same process
            unsigned long long i = 0;
            is >> i;
            ChildOut r = run_child([&] {
                for (uint32_t j = 0; j < (uint32_t)g_enum.size(); ++j) {
                    if (j == (uint32_t)i || !g_enum_ok[j]) continue;
                    DeviceIdentifier id;
                    sentinel(id);
                    if (device_manager_get(&id, &g_dm, j) != Device_Ok) continue;
                    Driver* d = device_manager_get_driver(&g_dm, &id);
                    Device* dev = 0;
                    if (d && driver_open_device(d, id.device_id, &dev) == Device_Ok && dev) driver_close_device(dev);
                }
                op_open((uint32_t)i);
            }, watchdog_ms);
            print_child(r, false);
        } else if (op == "first" || op == "default") {
            unsigned long long k = 0;
            is >> k;
            bool dflt = op == "default";
            ChildOut r = run_child([&] { op_first((uint32_t)k, dflt); }, watchdog_ms);
            print_child(r, false);
        } else if (op == "sel" || op == "selh") {
            unsigned long long k = 0, len = 0;
            std::string h;
            is >> k >> h >> len;
            std::string bytes;
            bool is_null = h == "NULL";
            if (!is_null && !unhex(h, bytes)) {
                printf("bad-op\n");
                continue;
            }
            bool hist = op == "selh";
            ChildOut r = run_child([&] { op_select((uint32_t)k, is_null, bytes, (size_t)len, hist); }, watchdog_ms);
            print_child(r, true);
        } else if (op == "destroy") {
            int st = (int)device_manager_destroy(&g_dm);
            printf("%s\n", st == Device_Ok ? "ok" : "err");
            inited = false;
        } else {
            printf("bad-op\n");
        }
        fflush(stdout);
    }
    return 0;
}
