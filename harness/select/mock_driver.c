// C12 mock driver: a well-behaved `struct Driver` whose device table is read from the text file
// "<path of this shared object>.devices" (so one source serves every optional driver name):
//
//   initfail                 -> acquire_driver_init_v0 returns NULL
//   <kind> <hexname|->       -> one device per line; device_id = line index (mod 256)
//
// Compiled with -DMOCK_NO_ENTRY it exports no entry point at all; with -DMOCK_UNRESOLVED its entry point needs a symbol that no
// library provides (a driver whose vendor SDK is absent).
#define _GNU_SOURCE
#include "device/kit/driver.h"
#include "device/props/device.h"

#include <dlfcn.h>
#include <stdio.h>
#include <stdlib.h>
#include <string.h>

struct MockDriver
{
    struct Driver driver;
    unsigned n;
    struct DeviceIdentifier* ids;
};

static unsigned
mock_count(struct Driver* d)
{
    return ((struct MockDriver*)d)->n;
}

static enum DeviceStatusCode
mock_describe(const struct Driver* d, struct DeviceIdentifier* identifier, uint64_t i)
{
    const struct MockDriver* self = (const struct MockDriver*)d;
    if (i >= self->n)
        return Device_Err;
    memcpy(identifier, self->ids + i, sizeof(*identifier));
    return Device_Ok;
}

static enum DeviceStatusCode
mock_open(struct Driver* d, uint64_t device_id, struct Device** out)
{
    struct MockDriver* self = (struct MockDriver*)d;
    if (!out)
        return Device_Err;
    if (device_id >= self->n) {
        // a driver that fails late: it has stored the device in *out, then finds out it cannot deliver it and releases it itself
        struct Device* late = (struct Device*)calloc(1, sizeof(*late));
        *out = late;
        free(late);
        return Device_Err;
    }
    struct Device* dev = (struct Device*)calloc(1, sizeof(*dev));
    if (!dev)
        return Device_Err;
    *out = dev;
    return Device_Ok;
}

static enum DeviceStatusCode
mock_close(struct Driver* d, struct Device* in)
{
    (void)d;
    if (!in)
        return Device_Err;
    free(in);
    return Device_Ok;
}

static enum DeviceStatusCode
mock_shutdown(struct Driver* d)
{
    struct MockDriver* self = (struct MockDriver*)d;
    if (self) {
        free(self->ids);
        free(self);
    }
    return Device_Ok;
}

static int
hexval(int c)
{
    if (c >= '0' && c <= '9')
        return c - '0';
    if (c >= 'a' && c <= 'f')
        return c - 'a' + 10;
    return -1;
}

#ifndef MOCK_NO_ENTRY
acquire_export struct Driver*
acquire_driver_init_v0(void (*reporter)(int is_error,
                                        const char* file,
                                        int line,
                                        const char* function,
                                        const char* msg))
{
    (void)reporter;
#ifdef MOCK_UNRESOLVED
    // a driver library for hardware whose vendor SDK is not installed: this symbol is provided by nothing. A loader that binds
    // symbols when it opens the library finds out there and skips the library; one that binds lazily finds out here, and dies.
    extern int acq_verif_vendor_sdk_that_is_not_installed(void);
    if (acq_verif_vendor_sdk_that_is_not_installed())
        return 0;
#endif
    Dl_info info = { 0 };
    if (!dladdr((void*)&acquire_driver_init_v0, &info) || !info.dli_fname)
        return 0;
    char path[4096];
    snprintf(path, sizeof(path), "%s.devices", info.dli_fname);
    FILE* f = fopen(path, "r");
    if (!f)
        return 0;
    struct MockDriver* self = (struct MockDriver*)calloc(1, sizeof(*self));
    if (!self) {
        fclose(f);
        return 0;
    }
    self->driver.device_count = mock_count;
    self->driver.describe = mock_describe;
    self->driver.open = mock_open;
    self->driver.close = mock_close;
    self->driver.shutdown = mock_shutdown;
    size_t cap = 0;
    static char line[2048];
    while (fgets(line, sizeof(line), f)) {
        if (!strncmp(line, "initfail", 8)) {
            fclose(f);
            mock_shutdown(&self->driver);
            return 0;
        }
        unsigned kind = 0;
        char hex[1024] = { 0 };
        if (sscanf(line, "%u %1023s", &kind, hex) != 2)
            continue;
        if (self->n == cap) {
            cap = cap ? 2 * cap : 8;
            self->ids = (struct DeviceIdentifier*)realloc(self->ids, cap * sizeof(*self->ids));
        }
        struct DeviceIdentifier* id = self->ids + self->n;
        memset(id, 0, sizeof(*id));
        id->device_id = (uint8_t)self->n;
        id->kind = (enum DeviceKind)kind;
        if (strcmp(hex, "-")) {
            size_t k = 0;
            for (const char* p = hex; p[0] && p[1] && k + 1 < sizeof(id->name); p += 2)
                id->name[k++] = (char)(hexval(p[0]) * 16 + hexval(p[1]));
        }
        self->n++;
    }
    fclose(f);
    return &self->driver;
}
#else
int
mock_has_no_entry_point(void)
{
    return 1;
}
#endif
