// C12 extractor: run the REAL common driver (libacquire-driver-common.so built from the
// working tree of the repository) and print lean/AcqVerif/Generated/DeviceTable.lean.
//
// For every index i in 0..device_count-1 and indices beyond it (up to 2^64-1, incl. those that alias a valid index modulo 2^8, 2^16, 2^32):
//   describe(i)                                -> status, device_id, kind, name
//   open(i); describe(i) into the opened device -> status, device_id, kind, name   (what driver.c does)
//   close                                      -> status
// plus the enum values the model uses (DeviceKind_*, Device_Ok/Err).
//
// usage: extract_devtable <path to libacquire-driver-common.so>
#include "device/kit/driver.h"
#include "device/props/device.h"

#include <dlfcn.h>
#include <stdio.h>
#include <string.h>
#include <stdlib.h>

static void
reporter(int is_error, const char* file, int line, const char* function, const char* msg)
{
    (void)is_error; (void)file; (void)line; (void)function; (void)msg;
}

static void
print_name(const char* name, size_t cap)
{
    size_t n = strnlen(name, cap);
    printf("[");
    for (size_t i = 0; i < n; ++i)
        printf("%s%u", i ? ", " : "", (unsigned)(unsigned char)name[i]);
    printf("]");
}

static void
print_comment_name(const char* name, size_t cap)
{
    size_t n = strnlen(name, cap);
    for (size_t i = 0; i < n; ++i) {
        unsigned char c = (unsigned char)name[i];
        putchar((c >= 32 && c < 127) ? c : '?');
    }
}

int
main(int argc, char** argv)
{
    if (argc < 2) {
        fprintf(stderr, "usage: %s lib.so\n", argv[0]);
        return 2;
    }
    void* lib = dlopen(argv[1], RTLD_NOW | RTLD_LOCAL);
    if (!lib) {
        fprintf(stderr, "dlopen: %s\n", dlerror());
        return 3;
    }
    struct Driver* (*init)(void (*)(int, const char*, int, const char*, const char*)) =
      (struct Driver * (*)(void (*)(int, const char*, int, const char*, const char*)))
        dlsym(lib, "acquire_driver_init_v0");
    if (!init) {
        fprintf(stderr, "no entry point\n");
        return 4;
    }
    struct Driver* drv = init(reporter);
    if (!drv) {
        fprintf(stderr, "init failed\n");
        return 5;
    }
    unsigned n = drv->device_count(drv);
    if (n > 200) {
        fprintf(stderr, "implausible device count %u\n", n);
        return 6;
    }

    printf("/-! GENERATED on every run of `bin/check C12` by harness/select/extract_devtable.c from the\n"
           "real `acquire-driver-common/src/basics.driver.c` (built from the repository's working tree and\n"
           "executed: describe / open / describe / close for every index).  Do not edit. -/\n");
    printf("namespace AcqVerif.Generated.DeviceTable\n\n");
    printf("def Device_Ok : Nat := %d\n", (int)Device_Ok);
    printf("def Device_Err : Nat := %d\n", (int)Device_Err);
    printf("def DeviceKind_None : Nat := %d\n", (int)DeviceKind_None);
    printf("def DeviceKind_Camera : Nat := %d\n", (int)DeviceKind_Camera);
    printf("def DeviceKind_Storage : Nat := %d\n", (int)DeviceKind_Storage);
    printf("def DeviceKind_StageAxis : Nat := %d\n", (int)DeviceKind_StageAxis);
    printf("def DeviceKind_Signals : Nat := %d\n", (int)DeviceKind_Signals);
    printf("def DeviceKind_Count : Nat := %d\n", (int)DeviceKind_Count);
    printf("def DeviceKind_Unknown : Nat := %d\n", (int)DeviceKind_Unknown);
    printf("/-- `sizeof(DeviceIdentifier.name)` -/\ndef nameCapacity : Nat := %u\n\n",
           (unsigned)sizeof(((struct DeviceIdentifier*)0)->name));
    printf("/-- one index of the driver, as observed by running it -/\n"
           "structure Row where\n"
           "  index : Nat\n"
           "  descOk : Bool        -- describe(index) == Device_Ok\n"
           "  deviceId : Nat       -- identifier after describe (prefilled with the manager's default)\n"
           "  kind : Nat\n"
           "  name : List Nat\n"
           "  openOk : Bool        -- open(index) == Device_Ok and *out != NULL\n"
           "  oDescOk : Bool       -- describe(index) into the opened device\n"
           "  oDeviceId : Nat\n"
           "  oKind : Nat\n"
           "  oName : List Nat\n"
           "  closeOk : Bool\n"
           "deriving DecidableEq, Repr, Inhabited\n\n");
    printf("/-- `basic_device_count()` -/\ndef deviceCount : Nat := %u\n\n", n);

    // indices beyond the table, among them those whose low 8 / 16 / 32 bits are a valid index (an index that is narrowed
    // before it is range-checked slips through exactly there)
    unsigned long long probes[64];
    size_t np = 0;
    probes[np++] = n;
    probes[np++] = n + 1ULL;
    probes[np++] = 255;
    probes[np++] = 256;
    probes[np++] = 256 + (n ? n - 1ULL : 0);
    probes[np++] = 65536 + 1ULL;
    probes[np++] = 1ULL << 31;
    probes[np++] = (1ULL << 31) + 1;
    for (unsigned k = 0; k < n && k < 8; ++k)
        probes[np++] = (1ULL << 32) + k;
    probes[np++] = (1ULL << 32) + n;
    probes[np++] = (7ULL << 32) + (n ? n - 1ULL : 0);
    probes[np++] = 1ULL << 63;
    probes[np++] = ~0ULL;

    printf("def rows : List Row := [\n");
    for (size_t r = 0; r < n + np; ++r) {
        unsigned long long i = r < n ? r : probes[r - n];
        // the manager's default identifier (device.manager.cpp: dflt)
        struct DeviceIdentifier id = { 0, 0, DeviceKind_Unknown, "" };
        memset(id.name, 0, sizeof(id.name));
        enum DeviceStatusCode ds = drv->describe(drv, &id, i);
        struct Device* dev = 0;
        enum DeviceStatusCode os = drv->open(drv, i, &dev);
        int open_ok = (os == Device_Ok && dev != 0);
        struct DeviceIdentifier oid = { 0, 0, DeviceKind_Unknown, "" };
        memset(oid.name, 0, sizeof(oid.name));
        enum DeviceStatusCode ods = Device_Err, cs = Device_Err;
        if (open_ok) {
            ods = drv->describe(drv, &dev->identifier, i);
            oid = dev->identifier;
            cs = drv->close(drv, dev);
        }
        printf("  -- %llu: ", i);
        print_comment_name(id.name, sizeof(id.name));
        printf("\n  { index := %llu, descOk := %s, deviceId := %u, kind := %u, name := ",
               i, ds == Device_Ok ? "true" : "false", (unsigned)id.device_id, (unsigned)id.kind);
        print_name(id.name, sizeof(id.name));
        printf(",\n    openOk := %s, oDescOk := %s, oDeviceId := %u, oKind := %u, oName := ",
               open_ok ? "true" : "false", ods == Device_Ok ? "true" : "false",
               (unsigned)oid.device_id, (unsigned)oid.kind);
        print_name(oid.name, sizeof(oid.name));
        printf(", closeOk := %s }%s\n", cs == Device_Ok ? "true" : "false", r + 1 < n + np ? "," : "");
    }
    printf("]\n\nend AcqVerif.Generated.DeviceTable\n");
    drv->shutdown(drv);
    dlclose(lib);
    return 0;
}
